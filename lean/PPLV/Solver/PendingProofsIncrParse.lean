import PPLV.Solver.PendingProofsIncrDefs

/-!
# C06 stage 3 — `parse_constraints` in an incremental call without new space dimensions

Facts about `parseConstraints s` for a state with `internal_space_dim = external_space_dim = n`,
`mapping.length = n + 1`:

* `nn0_spec`            — the initial "known non-negative" list marks exactly the unsplit variables;
* `parse_spec2`         — `is_remergeable_variable`: set only on a split variable that a pending class-7 constraint
                          bounds; every pending class-7 variable is known non-negative, re-mergeable, or forced by a
                          pending class 4/5/6 constraint;
* `parse_isSat'`        — the "already satisfied" flags, for an arbitrary `last_generator`;
* `isSatisfied_sem`     — `is_satisfied` in rational terms;
* `flags_at_recomputed` — `last_generator` recomputed by `compute_generator` is the projected basic solution, hence
                          a flagged constraint holds at the projected basic solution.
-/
namespace PPLV.Solver.Pend
open PPLV.Lin PPLV.Solver PPLV.Solver.Tab

/-- the list of the variables known to be non-negative at the start of `parse_constraints` (:546–:555) -/
def nn0Of (s : LPState) : List Bool :=
  if s.mapping.length > 0 then
    revFold (min (s.mapping.length - 1) s.external_space_dim)
      (fun i (l : List Bool) => if (s.mapping.getD (i+1) (0, 0)).2 == 0 then l.set i true else l)
      (List.replicate s.external_space_dim false)
  else List.replicate s.external_space_dim false

theorem getD_replicate_false (n v : Nat) : (List.replicate n false).getD v false = false := by
  rw [List.getD_eq_getElem?_getD]
  by_cases h : v < n
  · rw [List.getElem?_replicate_of_lt h]; rfl
  · rw [List.getElem?_eq_none (by simpa using h)]; rfl

/-- (1) the initial list marks exactly the unsplit variables -/
theorem nn0_spec (s : LPState) (hm : s.mapping.length = s.external_space_dim + 1) :
    (nn0Of s).length = s.external_space_dim ∧
    ∀ v, (nn0Of s).getD v false = true ↔ (v < s.external_space_dim ∧ (s.mapping.getD (v+1) (0, 0)).2 = 0) := by
  unfold nn0Of
  have h0 : s.mapping.length > 0 := by omega
  rw [if_pos h0]
  have hmin : min (s.mapping.length - 1) s.external_space_dim = s.external_space_dim := by omega
  rw [hmin]
  have key := revFold_inv
    (fun (k : Nat) (l : List Bool) => l.length = s.external_space_dim ∧
      ∀ v, l.getD v false = true ↔ (k ≤ v ∧ v < s.external_space_dim ∧ (s.mapping.getD (v+1) (0, 0)).2 = 0))
    (fun i (l : List Bool) => if (s.mapping.getD (i+1) (0, 0)).2 == 0 then l.set i true else l)
    s.external_space_dim (List.replicate s.external_space_dim false)
    ⟨by simp, fun v => by
      rw [getD_replicate_false]
      constructor
      · intro h; cases h
      · rintro ⟨h1, h2, -⟩; omega⟩
    (by
      intro i hi l ⟨l1, l2⟩
      by_cases hb : (s.mapping.getD (i+1) (0, 0)).2 = 0
      · have hb' : ((s.mapping.getD (i+1) (0, 0)).2 == 0) = true := by rw [hb]; rfl
        simp only [hb', if_true]
        refine ⟨by rw [List.length_set]; exact l1, fun v => ?_⟩
        rw [nonneg_set_iff, l2 v, l1]
        constructor
        · rintro (⟨a1, a2, a3⟩ | ⟨a1, a2⟩)
          · exact ⟨by omega, a2, a3⟩
          · subst a1; exact ⟨le_refl _, a2, hb⟩
        · rintro ⟨a1, a2, a3⟩
          by_cases hv : v = i
          · exact Or.inr ⟨hv, hi⟩
          · exact Or.inl ⟨by omega, a2, a3⟩
      · have hb' : ((s.mapping.getD (i+1) (0, 0)).2 == 0) = false := by simpa using hb
        simp only [hb', Bool.false_eq_true, if_false]
        refine ⟨l1, fun v => ?_⟩
        rw [l2 v]
        constructor
        · rintro ⟨a1, a2, a3⟩; exact ⟨by omega, a2, a3⟩
        · rintro ⟨a1, a2, a3⟩
          by_cases hv : v = i
          · subst hv; exact absurd a3 hb
          · exact ⟨by omega, a2, a3⟩)
  exact ⟨key.1, fun v => by rw [key.2 v]; constructor
                            · rintro ⟨-, a2, a3⟩; exact ⟨a2, a3⟩
                            · rintro ⟨a2, a3⟩; exact ⟨Nat.zero_le _, a2, a3⟩⟩

/-! ### (2) the re-mergeable variables -/

/-- effect of one iteration of the loop of `parse_constraints` on `is_remergeable_variable` -/
theorem parseStep_rem (s : LPState) (pend : List ICon) (p : Nat) (a a' : Parsed) (cls : CClass) (v : Nat)
    (hcl : classify (pend.getD p default) = (cls, v))
    (h : parseStep s pend p (some a) = some a') :
    a'.isRemerge.length = a.isRemerge.length ∧
    ∀ u, a'.isRemerge.getD u false = true ↔ (a.isRemerge.getD u false = true ∨
      (cls = .m7 ∧ u = v ∧ a.isNonneg.getD v false = false ∧ v + 1 < s.mapping.length ∧
        v < a.isRemerge.length)) := by
  unfold parseStep at h
  cases cls <;> simp only [hcl] at h
  case many =>
    by_cases he : (pend.getD p default).isEq = true
    · simp only [he, Bool.not_true, Bool.false_eq_true, if_false, Bool.false_and, Option.some.injEq] at h
      subst h; exact ⟨rfl, fun u => ⟨Or.inl, fun h => h.elim id (fun h => by cases h.1)⟩⟩
    · have he' : (pend.getD p default).isEq = false := by simpa using he
      simp only [he', Bool.not_false, if_true, Bool.true_and] at h
      split at h <;>
        (simp only [Option.some.injEq] at h; subst h
         exact ⟨rfl, fun u => ⟨Or.inl, fun h => h.elim id (fun h => by cases h.1)⟩⟩)
  case trivFalse => cases h
  case trivTrue =>
    simp only [Option.some.injEq] at h
    subst h; exact ⟨rfl, fun u => ⟨Or.inl, fun h => h.elim id (fun h => by cases h.1)⟩⟩
  case m13 =>
    split at h <;>
      (simp only [Option.some.injEq] at h; subst h
       exact ⟨rfl, fun u => ⟨Or.inl, fun h => h.elim id (fun h => by cases h.1)⟩⟩)
  case m45 =>
    simp only [Option.some.injEq] at h
    subst h; exact ⟨rfl, fun u => ⟨Or.inl, fun h => h.elim id (fun h => by cases h.1)⟩⟩
  case m6 =>
    simp only [Option.some.injEq] at h
    subst h; exact ⟨rfl, fun u => ⟨Or.inl, fun h => h.elim id (fun h => by cases h.1)⟩⟩
  case m7 =>
    simp only [Option.some.injEq] at h
    subst h
    by_cases hnn : a.isNonneg.getD v false = true
    · simp only [hnn, Bool.not_true, Bool.false_eq_true, if_false]
      refine ⟨trivial, fun u => ⟨Or.inl, fun h => h.elim id (fun h => ?_)⟩⟩
      cases h.2.2.1
    · have hnn' : a.isNonneg.getD v false = false := by simpa using hnn
      simp only [hnn', Bool.not_false, if_true]
      by_cases hv : v + 1 < s.mapping.length
      · simp only [hv, if_true]
        refine ⟨by rw [List.length_set], fun u => ?_⟩
        rw [nonneg_set_iff]
        constructor
        · rintro (h | ⟨h1, h2⟩)
          · exact Or.inl h
          · exact Or.inr ⟨trivial, h1, trivial, trivial, h2⟩
        · rintro (h | ⟨-, h1, -, -, h2⟩)
          · exact Or.inl h
          · exact Or.inr ⟨h1, h2⟩
      · simp only [hv, if_false]
        exact ⟨trivial, fun u => ⟨Or.inl, fun h => h.elim id (fun h => h.2.2.2.1.elim)⟩⟩
  case m89 =>
    simp only [Option.some.injEq] at h
    subst h; exact ⟨rfl, fun u => ⟨Or.inl, fun h => h.elim id (fun h => by cases h.1)⟩⟩

/-- the second loop invariant of `parse_constraints` (re-mergeable variables) -/
def ParseInv2 (pend : List ICon) (nn0 : List Bool) (R : Nat) (i : Nat) : Option Parsed → Prop
  | none => True
  | some a =>
    a.isRemerge.length = R ∧
    a.isNonneg.length = nn0.length ∧
    (∀ v, nn0.getD v false = true → a.isNonneg.getD v false = true) ∧
    (∀ v, a.isRemerge.getD v false = true → v < R ∧ nn0.getD v false = false ∧
      ∃ c ∈ pend.drop i, (classify c).1 = .m7 ∧ (classify c).2 = v) ∧
    (∀ v, a.isNonneg.getD v false = true → nn0.getD v false = true ∨ a.isRemerge.getD v false = true ∨
      ∃ c ∈ pend.drop i, ((classify c).1 = .m45 ∨ (classify c).1 = .m6) ∧ (classify c).2 = v)

theorem parseInv2_step (s : LPState) (pend : List ICon) (nn0 : List Bool) (R : Nat) (hR : R = nn0.length)
    (hm : s.mapping.length = nn0.length + 1) (i : Nat) (hi : i < pend.length)
    (acc : Option Parsed) (h : ParseInv2 pend nn0 R (i+1) acc) :
    ParseInv2 pend nn0 R i (parseStep s pend i acc) := by
  have hdrop : pend.drop i = pend.getD i default :: pend.drop (i+1) := by
    rw [List.getD_eq_getElem?_getD, List.getElem?_eq_getElem hi]
    exact List.drop_eq_getElem_cons hi
  cases acc with
  | none => exact trivial
  | some a =>
    cases hps : parseStep s pend i (some a) with
    | none => exact trivial
    | some a' =>
      obtain ⟨h1, h2, h3, h4, h5⟩ := h
      rcases hcl : classify (pend.getD i default) with ⟨cls, v⟩
      have hf : cls ≠ .trivFalse := by
        intro hf; subst hf
        rw [parseStep_trivFalse s pend i a v hcl] at hps; cases hps
      obtain ⟨a'', ha'', -, -, -, t4, t5⟩ := parseStep_some s pend i a cls v hcl hf
      rw [hps] at ha''
      simp only [Option.some.injEq] at ha''
      subst ha''
      obtain ⟨r1, r2⟩ := parseStep_rem s pend i a a' cls v hcl hps
      have hmem : pend.getD i default ∈ pend.drop i := by rw [hdrop]; exact List.mem_cons_self
      have hlift : ∀ c, c ∈ pend.drop (i+1) → c ∈ pend.drop i := fun c hc => by
        rw [hdrop]; exact List.mem_cons_of_mem _ hc
      refine ⟨by rw [r1, h1], by rw [t4, h2], fun u hu => (t5 u).mpr (Or.inl (h3 u hu)), fun u hu => ?_,
        fun u hu => ?_⟩
      · rcases (r2 u).mp hu with hu' | ⟨hc7, huv, hnn, -, hlt⟩
        · obtain ⟨b1, b2, c, hc, b3⟩ := h4 u hu'
          exact ⟨b1, b2, c, hlift c hc, b3⟩
        · subst huv
          refine ⟨by omega, ?_, pend.getD i default, hmem, by rw [hcl]; exact hc7, by rw [hcl]⟩
          cases hb : nn0.getD u false with
          | false => rfl
          | true => rw [h3 u hb] at hnn; cases hnn
      · by_cases hau : a.isNonneg.getD u false = true
        · rcases h5 u hau with b | b | ⟨c, hc, b⟩
          · exact Or.inl b
          · exact Or.inr (Or.inl ((r2 u).mpr (Or.inl b)))
          · exact Or.inr (Or.inr ⟨c, hlift c hc, b⟩)
        · have hau' : a.isNonneg.getD u false = false := by simpa using hau
          rcases (t5 u).mp hu with b | ⟨hfn, huv, hlt⟩
          · exact absurd b hau
          · subst huv
            cases cls <;> simp only [forcesNonneg] at hfn <;> try cases hfn
            · exact Or.inr (Or.inr ⟨_, hmem, by rw [hcl]; exact Or.inl rfl, by rw [hcl]⟩)
            · exact Or.inr (Or.inr ⟨_, hmem, by rw [hcl]; exact Or.inr rfl, by rw [hcl]⟩)
            · exact Or.inr (Or.inl ((r2 u).mpr (Or.inr ⟨rfl, rfl, hau', by omega, by omega⟩)))

theorem parseInv2_all (s : LPState) (hm : s.mapping.length = s.external_space_dim + 1)
    (hint : s.internal_space_dim = s.external_space_dim) :
    ParseInv2 (s.input_cs.drop s.first_pending) (nn0Of s) s.internal_space_dim 0 (parseConstraints s) := by
  have hlen := (nn0_spec s hm).1
  unfold parseConstraints
  simp only
  have hnn : (if s.mapping.length > 0 then
        revFold (min (s.mapping.length - 1) s.external_space_dim)
          (fun i (l : List Bool) => if (s.mapping.getD (i+1) (0, 0)).2 == 0 then l.set i true else l)
          (List.replicate s.external_space_dim false)
      else List.replicate s.external_space_dim false) = nn0Of s := rfl
  rw [hnn]
  apply revFold_inv (fun i acc => ParseInv2 (s.input_cs.drop s.first_pending) (nn0Of s) s.internal_space_dim i acc)
  · refine ⟨by simp, rfl, fun v hv => hv, fun v hv => ?_, fun v hv => Or.inl hv⟩
    simp only at hv
    rw [getD_replicate_false] at hv; cases hv
  · intro i hi acc hacc
    exact parseInv2_step s _ (nn0Of s) _ (by rw [hlen, hint]) (by rw [hlen, hm]) i hi acc hacc

/-- (2) **the re-mergeable variables computed by `parse_constraints`** in an incremental call without new space
    dimensions -/
theorem parse_spec2 (s : LPState) (p : Parsed) (hm : s.mapping.length = s.external_space_dim + 1)
    (hint : s.internal_space_dim = s.external_space_dim) (h : parseConstraints s = some p) :
    p.isRemerge.length = s.internal_space_dim ∧
    (∀ v, p.isRemerge.getD v false = true → v < s.external_space_dim ∧ (nn0Of s).getD v false = false ∧
      ∃ c ∈ s.input_cs.drop s.first_pending, (classify c).1 = .m7 ∧ (classify c).2 = v) ∧
    (∀ c ∈ s.input_cs.drop s.first_pending, (classify c).1 = .m7 → (classify c).2 < s.external_space_dim →
      (nn0Of s).getD (classify c).2 false = true ∨ p.isRemerge.getD (classify c).2 false = true ∨
      ∃ c' ∈ s.input_cs.drop s.first_pending,
        ((classify c').1 = .m45 ∨ (classify c').1 = .m6) ∧ (classify c').2 = (classify c).2) := by
  have hlen := (nn0_spec s hm).1
  have i2 := parseInv2_all s hm hint
  have i1 := parse_spec s (nn0Of s) rfl
  rw [h] at i1 i2
  obtain ⟨-, -, -, -, -, -, g7⟩ := i1
  obtain ⟨k1, -, -, k4, k5⟩ := i2
  rw [List.drop_zero] at g7 k4 k5
  refine ⟨k1, fun v hv => ?_, fun c hc hc7 hlt => ?_⟩
  · obtain ⟨b1, b2, b3⟩ := k4 v hv
    exact ⟨by omega, b2, b3⟩
  · exact k5 _ (g7 c hc hc7 (by rw [hlen]; exact hlt))

/-! ### (3) the flags, for an arbitrary `last_generator` -/

theorem parse_isSat' (s : LPState) (p : Parsed) (h : parseConstraints s = some p) :
    p.isSat.length = (s.input_cs.drop s.first_pending).length ∧
    ∀ i, i < (s.input_cs.drop s.first_pending).length → p.isSat.getD i false = true →
      slackC ((s.input_cs.drop s.first_pending).getD i default) = true ∧
      isSatisfied ((s.input_cs.drop s.first_pending).getD i default) s.last_generator = true := by
  obtain ⟨h1, h2⟩ := parse_isSat s p h
  exact ⟨h1, fun i _ hf => ⟨(h2 i hf).2.1, (h2 i hf).2.2.2⟩⟩

/-! ### (4) `is_satisfied` in rational terms -/

theorem spsum (n : Nat) : ∀ (c : List Int) (g : Nat → Int) (a : Int) (d : Rat), d ≠ 0 →
    (((((List.range n).map fun i => c.getD i 0 * g i).foldl (· + ·) a : Int)) : Rat) =
      (a : Rat) + d * dot (c.take n) (fun i => ((g i : Int) : Rat) / d) := by
  induction n with
  | zero => intro c g a d _; simp
  | succ n ih =>
    intro c g a d hd
    rw [List.range_succ_eq_map, List.map_cons, List.map_map, List.foldl_cons]
    cases c with
    | nil =>
      have hfun : ((fun i => ([] : List Int).getD i 0 * g i) ∘ Nat.succ) =
          fun i => ([] : List Int).getD i 0 * g (i+1) := by funext i; simp
      rw [hfun, ih [] (fun i => g (i+1)) _ d hd]
      simp
    | cons x c' =>
      have hfun : ((fun i => (x :: c').getD i 0 * g i) ∘ Nat.succ) =
          fun i => c'.getD i 0 * g (i+1) := by funext i; simp
      rw [hfun, ih c' (fun i => g (i+1)) _ d hd, List.take_succ_cons, dot_cons]
      have htail : Val.tail (fun i => ((g i : Int) : Rat) / d) = fun i => ((g (i+1) : Int) : Rat) / d := rfl
      rw [htail]
      have e : d * ((x : Rat) * (((g 0 : Int) : Rat) / d)) = (x : Rat) * ((g 0 : Int) : Rat) := by field_simp
      simp only [List.getD_cons_zero]
      rw [mul_add, e]
      push_cast
      ring

theorem isSatisfied_sem (c : ICon) (g : Pt) (h : isSatisfied c g = true) (hd : 0 < g.den) :
    0 ≤ dot c.coeffs g.val + (c.k : Rat) := by
  have hsp : 0 ≤ spSign c g := by
    unfold isSatisfied at h
    split at h
    · have : spSign c g = 0 := by simpa using h
      omega
    · simpa using h
  unfold spSign at hsp
  simp only at hsp
  have hdq : (g.den : Rat) ≠ 0 := by exact_mod_cast (ne_of_gt hd)
  have key := spsum (max c.coeffs.length g.num.length) c.coeffs (fun i => g.num.getD i 0) (c.k * g.den)
    (g.den : Rat) hdq
  rw [List.take_of_length_le (le_max_left _ _)] at key
  have hnn : 0 ≤ ((List.range (max c.coeffs.length g.num.length)).map
      fun i => c.coeffs.getD i 0 * g.num.getD i 0).foldl (· + ·) (c.k * g.den) := by
    rcases sgn_vals (((List.range (max c.coeffs.length g.num.length)).map
      fun i => c.coeffs.getD i 0 * g.num.getD i 0).foldl (· + ·) (c.k * g.den)) with ⟨a1, a2⟩ | ⟨a1, a2⟩ | ⟨a1, a2⟩
    · rw [a2] at hsp; omega
    · omega
    · omega
  have hq : (0 : Rat) ≤ (((((List.range (max c.coeffs.length g.num.length)).map
      fun i => c.coeffs.getD i 0 * g.num.getD i 0).foldl (· + ·) (c.k * g.den) : Int)) : Rat) := by
    exact_mod_cast hnn
  rw [key] at hq
  have hval : g.val = fun i => ((g.num.getD i 0 : Int) : Rat) / (g.den : Rat) := rfl
  rw [hval]
  push_cast at hq
  have hdpos : (0 : Rat) < (g.den : Rat) := by exact_mod_cast hd
  have h2 : (0 : Rat) ≤ (g.den : Rat) *
      (dot c.coeffs (fun i => ((g.num.getD i 0 : Int) : Rat) / (g.den : Rat)) + (c.k : Rat)) := by
    rw [mul_add]; linarith
  exact (mul_nonneg_iff_of_pos_left hdpos).mp h2

/-! ### (5) the flags at the recomputed `last_generator` -/

theorem flags_at_recomputed (s : LPState) (n : Nat) (hC : CanonTB s.tableau s.base s.working_cost.length)
    (hmap : ∃ nn j, MapOK s.mapping nn n j ∧ 1 + j ≤ s.working_cost.length - 1)
    (hn : n = s.external_space_dim) (hpos : 0 < n) :
    0 < (computeGenerator s).last_generator.den ∧
    (computeGenerator s).last_generator.num.length = n ∧
    (∀ i, i < n → (computeGenerator s).last_generator.val i = proj s.mapping (bsol s.tableau s.base) i) := by
  obtain ⟨nn, j, hM, -⟩ := hmap
  subst hn
  have hcols : ∀ i, i < s.external_space_dim → (s.mapping.getD (i+1) (0, 0)).1 ≠ 0 := by
    intro i hi; have := (hM.cols i hi).1; omega
  exact computeGeneratorPt_spec hC s.mapping s.external_space_dim hpos hcols

theorem flags_at_recomputed_cor (s : LPState) (n : Nat) (p : Parsed)
    (hC : CanonTB s.tableau s.base s.working_cost.length)
    (hmap : ∃ nn j, MapOK s.mapping nn n j ∧ 1 + j ≤ s.working_cost.length - 1)
    (hn : n = s.external_space_dim) (hpos : 0 < n)
    (hp : parseConstraints (computeGenerator s) = some p)
    (i : Nat) (hi : i < (s.input_cs.drop s.first_pending).length) (hf : p.isSat.getD i false = true)
    (hlen : ((s.input_cs.drop s.first_pending).getD i default).coeffs.length ≤ n) :
    slackC ((s.input_cs.drop s.first_pending).getD i default) = true ∧
    0 ≤ dot ((s.input_cs.drop s.first_pending).getD i default).coeffs (proj s.mapping (bsol s.tableau s.base)) +
      (((s.input_cs.drop s.first_pending).getD i default).k : Rat) := by
  obtain ⟨f1, -, f3⟩ := flags_at_recomputed s n hC hmap hn hpos
  have q : ∀ i, i < (s.input_cs.drop s.first_pending).length → p.isSat.getD i false = true →
      slackC ((s.input_cs.drop s.first_pending).getD i default) = true ∧
      isSatisfied ((s.input_cs.drop s.first_pending).getD i default) (computeGenerator s).last_generator = true :=
    (parse_isSat' (computeGenerator s) p hp).2
  obtain ⟨q1, q2⟩ := q i hi hf
  refine ⟨q1, ?_⟩
  have := isSatisfied_sem _ _ q2 f1
  rw [dot_congr_lt _ _ (proj s.mapping (bsol s.tableau s.base)) (fun u hu => f3 u (lt_of_lt_of_le hu hlen))] at this
  exact this

end PPLV.Solver.Pend
