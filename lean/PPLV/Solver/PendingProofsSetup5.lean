import PPLV.Solver.PendingProofsSetup4

/-!
# C06 stage 3 (b1), part 5 — sign normalisation, artificial columns, the encoding of a point, and
`tableau_setup_solutions` for a fresh problem
-/
namespace PPLV.Solver.Pend
open PPLV.Lin PPLV.Solver.Tab

/-! ### sign normalisation (:906–:915) -/

def normRow (r : Row) : Row := if r.get 0 > 0 then r.map (- ·) else r

theorem normRow_val (r : Row) (y : Val) : rowVal (normRow r) y = 0 ↔ rowVal r y = 0 := by
  unfold normRow rowVal
  split
  · rw [dot_map_neg']; constructor <;> intro h <;> linarith
  · exact Iff.rfl

theorem normRow_length (r : Row) : (normRow r).length = r.length := by
  unfold normRow; split <;> simp

theorem normalize_getD (T : List Row) (r : Nat) : (ppcNormalizeSigns T).getD r [] = normRow (T.getD r []) := by
  unfold ppcNormalizeSigns
  rw [List.getD_eq_getElem?_getD, List.getElem?_map, List.getD_eq_getElem?_getD]
  cases T[r]? with
  | none => rfl
  | some a => rfl

theorem normalize_length (T : List Row) : (ppcNormalizeSigns T).length = T.length := by
  unfold ppcNormalizeSigns; simp

/-! ### artificial columns (:918–:949), no re-merged row -/

theorem artificials_fresh (N numCols SL : Nat) (worked : List Bool) (T1 : List Row) (cost : Row) (base : List Nat)
    (hT : T1.length = N) (hrows : ∀ r, r < N → (T1.getD r []).length = numCols) :
    (ppcArtificials [] 0 N worked T1 cost base SL).1.length = N ∧
    ∀ r, r < N → ((ppcArtificials [] 0 N worked T1 cost base SL).1.getD r []).length = numCols ∧
      ∀ y : Val, (∀ col, SL ≤ col → col < numCols → y col = 0) →
        rowVal ((ppcArtificials [] 0 N worked T1 cost base SL).1.getD r []) y = rowVal (T1.getD r []) y := by
  unfold ppcArtificials
  simp only [List.foldl_nil, Nat.sub_zero]
  have key := fwdFold_inv
    (fun (_ : Nat) (acc : List Row × Row × List Nat × Nat) => acc.1.length = N ∧ SL ≤ acc.2.2.2 ∧
      ∀ r, r < N → (acc.1.getD r []).length = numCols ∧
        ∀ y : Val, (∀ col, SL ≤ col → col < numCols → y col = 0) →
          rowVal (acc.1.getD r []) y = rowVal (T1.getD r []) y)
    (fun i (acc : List Row × Row × List Nat × Nat) =>
      let (T, cost, base, ai) := acc
      if worked.getD i false then acc
      else (T.set i ((T.getD i []).set ai 1), cost.set ai (-1), base.set i ai, ai + 1))
    N 0 (T1, cost, base, SL)
    ⟨hT, le_refl _, fun r hr => ⟨hrows r hr, fun _ _ => rfl⟩⟩
    (by
      intro i _ hi acc ⟨a1, a2, a3⟩
      obtain ⟨T, cst, bs, ai⟩ := acc
      simp only at a1 a2 a3 ⊢
      by_cases hw : worked.getD i false = true
      · rw [if_pos hw]; exact ⟨a1, a2, a3⟩
      · rw [if_neg hw]
        simp only
        have hiT : i < T.length := by rw [a1]; omega
        refine ⟨by rw [List.length_set]; exact a1, by omega, fun r hr => ?_⟩
        rw [getD_set_row _ _ _ _ hiT]
        by_cases hri : r = i
        · rw [if_pos hri]
          obtain ⟨b1, b2⟩ := a3 i (by omega)
          refine ⟨by rw [List.length_set]; exact b1, fun y hy => ?_⟩
          rw [← hri] at b1 b2 ⊢
          rw [← b2 y hy]
          by_cases hai : ai < (T.getD r []).length
          · unfold rowVal
            rw [dot_set _ _ _ _ hai, hy ai a2 (by rw [← b1]; exact hai)]; simp
          · rw [List.set_eq_of_length_le (by omega)]
        · rw [if_neg hri]; exact a3 r hr)
  simp only [Nat.zero_add] at key
  exact ⟨key.1, key.2.2⟩

/-! ### the encoding of a point on the columns of the problem variables -/

def enc (M : List (Nat × Nat)) (x : Val) : Nat → Val
  | 0 => fun j => if j = 0 then 1 else 0
  | v+1 =>
    let m := M.getD (v+1) (0, 0)
    if m.2 = 0 then (enc M x v).update m.1 (x v)
    else ((enc M x v).update m.1 (max (x v) 0)).update m.2 (max (-(x v)) 0)

theorem enc_spec (M : List (Nat × Nat)) (nn : List Bool) (n j : Nat) (hM : MapOK M nn n j) (x : Val)
    (hx : ∀ u, u < n → nn.getD u false = true → 0 ≤ x u) :
    ∀ v, v ≤ n →
      enc M x v 0 = 1 ∧
      (∀ col, col ≠ 0 → (∀ u, u < v → hiCol (M.getD (u+1) (0, 0)) < col) → enc M x v col = 0) ∧
      (∀ u, u < v → proj M (enc M x v) u = x u) ∧
      (∀ col, 0 ≤ enc M x v col) := by
  intro v
  induction v with
  | zero =>
    intro _
    refine ⟨by simp [enc], fun col hc _ => by simp [enc, hc], fun u hu => by omega, fun col => ?_⟩
    simp only [enc]; split <;> norm_num
  | succ v ih =>
    intro hv
    obtain ⟨e1, e2, e3, e4⟩ := ih (by omega)
    obtain ⟨c1, c2, c3, c4⟩ := hM.cols v (by omega)
    -- the columns of variable v are beyond those of the earlier variables
    have hbefore : ∀ u, u < v → hiCol (M.getD (u+1) (0, 0)) < (M.getD (v+1) (0, 0)).1 :=
      fun u hu => hM.ord u v hu (by omega)
    have hcolsu : ∀ u, u < v → (M.getD (u+1) (0, 0)).1 ≤ hiCol (M.getD (u+1) (0, 0)) ∧
        (M.getD (u+1) (0, 0)).2 ≤ hiCol (M.getD (u+1) (0, 0)) := by
      intro u hu
      obtain ⟨d1, d2, -, -⟩ := hM.cols u (by omega)
      unfold hiCol; split <;> omega
    by_cases hm : (M.getD (v+1) (0, 0)).2 = 0
    · have hnnv : nn.getD v false = true := c3.mp hm
      have hxv := hx v (by omega) hnnv
      simp only [enc, hm, if_true]
      refine ⟨?_, fun col hc hall => ?_, fun u hu => ?_, fun col => ?_⟩
      · simp only [Val.update]; rw [if_neg (by omega)]; exact e1
      · have := hall v (by omega); unfold hiCol at this; rw [if_pos hm] at this
        simp only [Val.update]; rw [if_neg (by omega)]
        exact e2 col hc (fun u hu => hall u (by omega))
      · by_cases huv : u = v
        · subst huv
          unfold proj; simp only [hm]; simp [Val.update]
        · have hu' : u < v := by omega
          have hb := hbefore u hu'
          obtain ⟨g1, g2⟩ := hcolsu u hu'
          rw [← e3 u hu']
          unfold proj
          simp only [Val.update]
          rw [if_neg (by omega)]
          by_cases hm2 : (M.getD (u+1) (0, 0)).2 = 0
          · have hb2 : ((M.getD (u+1) (0, 0)).2 != 0) = false := by rw [hm2]; rfl
            rw [hb2]
            simp only [Bool.false_eq_true, if_false]
          · have : ((M.getD (u+1) (0, 0)).2 != 0) = true := bne_iff_ne.mpr hm2
            rw [this]; simp only [if_true]; rw [if_neg (by omega)]
      · simp only [Val.update]; split
        · exact hxv
        · exact e4 col
    · have hm2 : (M.getD (v+1) (0, 0)).2 = (M.getD (v+1) (0, 0)).1 + 1 := by
        rcases c2 with h | h
        · exact absurd h hm
        · exact h
      simp only [enc, hm, if_false]
      refine ⟨?_, fun col hc hall => ?_, fun u hu => ?_, fun col => ?_⟩
      · simp only [Val.update]; rw [if_neg (by omega), if_neg (by omega)]; exact e1
      · have := hall v (by omega); unfold hiCol at this; rw [if_neg hm] at this
        simp only [Val.update]; rw [if_neg (by omega), if_neg (by omega)]
        exact e2 col hc (fun u hu => hall u (by omega))
      · by_cases huv : u = v
        · subst huv
          unfold proj
          have : ((M.getD (u+1) (0, 0)).2 != 0) = true := bne_iff_ne.mpr hm
          have hne12 : ¬ (M.getD (u+1) (0, 0)).1 = (M.getD (u+1) (0, 0)).2 := by omega
          simp only [this, if_true, Val.update, hne12, if_false]
          rcases le_total (x u) 0 with h | h
          · have h1 : max (x u) 0 = 0 := max_eq_right h
            have h2 : max (-(x u)) 0 = -(x u) := max_eq_left (by linarith)
            rw [h1, h2]; ring
          · have h1 : max (x u) 0 = x u := max_eq_left h
            have h2 : max (-(x u)) 0 = 0 := max_eq_right (by linarith)
            rw [h1, h2]; ring
        · have hu' : u < v := by omega
          have hb := hbefore u hu'
          obtain ⟨g1, g2⟩ := hcolsu u hu'
          rw [← e3 u hu']
          unfold proj
          simp only [Val.update]
          rw [if_neg (by omega), if_neg (by omega)]
          by_cases hm2' : (M.getD (u+1) (0, 0)).2 = 0
          · have hb2 : ((M.getD (u+1) (0, 0)).2 != 0) = false := by rw [hm2']; rfl
            rw [hb2]
            simp only [Bool.false_eq_true, if_false]
          · have : ((M.getD (u+1) (0, 0)).2 != 0) = true := bne_iff_ne.mpr hm2'
            rw [this]; simp only [if_true]; rw [if_neg (by omega), if_neg (by omega)]
      · simp only [Val.update]; split
        · exact le_max_right _ _
        · split
          · exact le_max_right _ _
          · exact e4 col

theorem dot_congr_lt (l : List Int) (x x' : Val) (h : ∀ u, u < l.length → x u = x' u) : dot l x = dot l x' := by
  induction l generalizing x x' with
  | nil => rfl
  | cons a l ih =>
    simp only [dot_cons]
    rw [h 0 (by simp), ih x.tail x'.tail (fun u hu => h (u+1) (by simpa using hu))]

end PPLV.Solver.Pend
