import PPLV.Solver.PendingProofsProto

/-!
# C06 stage 3 — the full status protocol: proofs (`protoSpec`)

`proto_new`, `proto_mutators`, `proto_isLpSatisfiable`, `proto_secondPhase`, combined in `protoSpec`.
-/
namespace PPLV.Solver.Pend
open PPLV.Lin PPLV.Solver PPLV.Solver.Tab

/-! ### helpers -/

/-- `ReadyS` only looks at the tableau data of the state -/
theorem readyS_congr {cs : List ICon} {n : Nat} {s s' : LPState} (h1 : s'.tableau = s.tableau)
    (h2 : s'.base = s.base) (h3 : s'.working_cost = s.working_cost) (h4 : s'.mapping = s.mapping)
    (h5 : s'.numCols = s.numCols) (h : ReadyS cs n s) : ReadyS cs n s' := by
  obtain ⟨⟨a1, a2, a3, a4⟩, b, c⟩ := h
  refine ⟨⟨?_, ?_, ?_, ?_⟩, ?_, ?_⟩
  · rw [h1, h2, h3]; exact a1
  · rw [h3, h4]; exact a2
  · rw [h1, h3, h4]; exact a3
  · rw [h1, h3, h4]; exact a4
  · rw [h5, h3]; exact b
  · rw [h1, h3, h4]; exact c

theorem ppcFinish_keeps (s' : LPState) (b e : Nat) (ok : Bool) (t : Tab) :
    (ppcFinish s' b e ok t).obj = s'.obj ∧ (ppcFinish s' b e ok t).maximize = s'.maximize ∧
    (ppcFinish s' b e ok t).external_space_dim = s'.external_space_dim ∧
    (ppcFinish s' b e ok t).pricing = s'.pricing := by
  unfold ppcFinish
  simp only
  split
  · exact ⟨rfl, rfl, rfl, rfl⟩
  · split <;> exact ⟨rfl, rfl, rfl, rfl⟩

/-- the problem data `process_pending_constraints()` keeps, whatever its outcome -/
theorem ppc_keeps (fc : Chooser) (fuel : Nat) (s sR : LPState) (h : processPendingConstraints fc fuel s = some sR) :
    sR.obj = s.obj ∧ sR.maximize = s.maximize ∧ sR.external_space_dim = s.external_space_dim ∧
    sR.input_cs = s.input_cs ∧ sR.pricing = s.pricing := by
  unfold processPendingConstraints at h
  cases hs : ppcSetup s with
  | done sd =>
    rw [hs] at h
    simp only [Option.some.injEq] at h
    subst h
    exact ppcSetup_done_keeps s sd hs
  | phase1 s' b e =>
    rw [hs] at h
    simp only at h
    obtain ⟨k1, k2, k3, k4, k5⟩ := ppcSetup_keeps s s' b e hs
    cases hrun : computeSimplexWith (chooserOf fc s'.pricing) fuel s'.tab with
    | none => rw [hrun] at h; cases h
    | some res =>
      obtain ⟨ok, t⟩ := res
      rw [hrun] at h
      simp only [Option.some.injEq] at h
      subst h
      obtain ⟨f1, f2, f3, f4⟩ := ppcFinish_keeps s' b e ok t
      exact ⟨by rw [f1, k1], by rw [f2, k2], by rw [f3, k3], by rw [ppcFinish_input_cs, k4], by rw [f4, k5]⟩

/-- a solved status with the invariant: every constraint is processed -/
theorem proto_solved_ready (s : LPState) (hI : ProtoInv s) (hs : Solved s.status) :
    ReadyS s.input_cs s.external_space_dim s ∧ s.first_pending = s.input_cs.length ∧
    s.internal_space_dim = s.external_space_dim := by
  obtain ⟨f1, f2⟩ := hI.st hs
  rcases hI.basis with h | ⟨h, -⟩ | ⟨-, -, h3⟩
  · rcases hs with a | a | a <;> rw [h] at a <;> cases a
  · rcases hs with a | a | a <;> rw [h.part] at a <;> cases a
  · rw [f1, List.take_length, f2] at h3
    exact ⟨h3, f1, f2⟩

/-! ### clause 1 -/

theorem proto_new (m : Nat) : ProtoInv (LPState.new m) :=
  ⟨new_statusInv m, fun _ hc => absurd hc List.not_mem_nil, Nat.le_refl _, (fun h => by cases h),
    (fun h => by rcases h with h | h <;> cases h), Or.inr (Or.inl ⟨new_untouched m, rfl⟩)⟩

/-! ### clause 2 -/

/-- the invariant moves to a state with the same tableau data, more constraints, a larger space dimension, the same
    `last_generator`, a status that is UNSATISFIABLE exactly when it was, and truthful OPTIMIZED / UNBOUNDED -/
theorem protoInv_transfer (s s' : LPState) (hI : ProtoInv s) (hst : StatusInv s')
    (l : List ICon) (hcs : s'.input_cs = s.input_cs ++ l) (hl : ∀ c ∈ l, c.coeffs.length ≤ s.external_space_dim)
    (hext : s.external_space_dim ≤ s'.external_space_dim)
    (hk : s'.tableau = s.tableau ∧ s'.base = s.base ∧ s'.mapping = s.mapping ∧ s'.numCols = s.numCols ∧
      s'.working_cost = s.working_cost ∧ s'.first_pending = s.first_pending ∧
      s'.internal_space_dim = s.internal_space_dim)
    (hlg : s'.last_generator = s.last_generator)
    (hun : s'.status = .UNSATISFIABLE ↔ s.status = .UNSATISFIABLE)
    (hcl : (s'.status = .OPTIMIZED ∨ s'.status = .UNBOUNDED) → LPClaims s'.input_cs s'.problem s')
    (hU : Untouched s → Untouched s') : ProtoInv s' := by
  obtain ⟨k1, k2, k3, k4, k5, k6, k7⟩ := hk
  refine ⟨hst, ?_, ?_, ?_, hcl, ?_⟩
  · intro c hc
    rw [hcs] at hc
    rcases List.mem_append.mp hc with h | h
    · exact le_trans (hI.lens c h) hext
    · exact le_trans (hl c h) hext
  · rw [k6, hcs, List.length_append]
    have := hI.fp
    omega
  · intro h x hx
    rw [hcs] at hx
    exact hI.unsat (hun.mp h) x ((csSem_append _ _ _).mp hx).1
  · rcases hI.basis with h | ⟨h1, h2⟩ | ⟨h1, h2, h3⟩
    · exact Or.inl (hun.mpr h)
    · exact Or.inr (Or.inl ⟨hU h1, by rw [hlg]; exact h2⟩)
    · refine Or.inr (Or.inr ⟨by rw [k7]; exact h1, by rw [k7]; exact le_trans h2 hext, ?_⟩)
      rw [k7, k6, hcs, List.take_append_of_le_length hI.fp]
      exact readyS_congr k1 k2 k5 k3 k4 h3

/-- no mutator touches `last_generator` -/
theorem mutators_last_generator (s : LPState) (c : ICon) (e : LinExpr) (b : Bool) (m : Nat) (p : Pricing) :
    (addConstraint s c).last_generator = s.last_generator ∧
    (setObjectiveFunction s e).last_generator = s.last_generator ∧
    (setOptimizationMode s b).last_generator = s.last_generator ∧
    (addSpaceDimensionsAndEmbed s m).last_generator = s.last_generator ∧
    (setPricing s p).last_generator = s.last_generator := by
  refine ⟨?_, ?_, ?_, ?_, rfl⟩
  · by_cases h : s.status = .UNSATISFIABLE <;> simp [addConstraint, h]
  · cases hs : s.status <;> simp [setObjectiveFunction, hs]
  · by_cases hb : s.maximize = b <;> cases hs : s.status <;> simp [setOptimizationMode, hs, hb]
  · by_cases h : s.status = .UNSATISFIABLE <;> simp [addSpaceDimensionsAndEmbed, h]

theorem addSpaceDimensionsAndEmbed_fields (s : LPState) (m : Nat) :
    (addSpaceDimensionsAndEmbed s m).input_cs = s.input_cs ∧
    (addSpaceDimensionsAndEmbed s m).external_space_dim = s.external_space_dim + m := by
  by_cases h : s.status = .UNSATISFIABLE <;> simp [addSpaceDimensionsAndEmbed, h]

theorem proto_mutators (s : LPState) (hI : ProtoInv s) (c : ICon) (e : LinExpr) (b : Bool) (m : Nat) (p : Pricing) :
    (c.coeffs.length ≤ s.external_space_dim → ProtoInv (addConstraint s c)) ∧
    (e.coeffs.length ≤ s.external_space_dim → ProtoInv (setObjectiveFunction s e)) ∧
    ProtoInv (setOptimizationMode s b) ∧ ProtoInv (addSpaceDimensionsAndEmbed s m) ∧ ProtoInv (setPricing s p) := by
  have hk := mutators_keep_tableau s c e b m p
  obtain ⟨g1, g2, g3, g4, g5⟩ := mutators_last_generator s c e b m p
  obtain ⟨t1, t2, t3, t4, t5⟩ := mutators_statusInv s hI.st c e b m p
  refine ⟨fun hc => ?_, fun _ => ?_, ?_, ?_, ?_⟩
  · -- add_constraint
    obtain ⟨-, -, a3, a4⟩ := addConstraint_keeps s c
    obtain ⟨q1, q2⟩ := addConstraint_status s c
    refine protoInv_transfer s _ hI t1 [c] a4 (fun c' hc' => by rw [List.mem_singleton.mp hc']; exact hc)
      (le_of_eq a3.symm) (hk _ (by simp)) g1 ?_ (fun h => ?_) (fun h => (mutators_untouched s h c e b m p).1)
    · rw [q1]; by_cases h : s.status = .UNSATISFIABLE <;> simp [h]
    · exfalso; rcases h with h | h
      · exact q2 (Or.inr (Or.inr h))
      · exact q2 (Or.inr (Or.inl h))
  · -- set_objective_function
    obtain ⟨f1, f2, -, -⟩ := setObjectiveFunction_fields s e
    obtain ⟨q1, q2, q3, -⟩ := setObjectiveFunction_status s e
    refine protoInv_transfer s _ hI t2 [] (by rw [f1, List.append_nil]) (fun c' hc' => absurd hc' List.not_mem_nil)
      (le_of_eq f2.symm) (hk _ (by simp)) g2 ?_ (fun h => ?_) (fun h => (mutators_untouched s h c e b m p).2.1)
    · rw [q1]; cases hs : s.status <;> simp
    · exfalso; rcases h with h | h
      · exact q3 h
      · exact q2 h
  · -- set_optimization_mode
    obtain ⟨f1, f2, -, -⟩ := setOptimizationMode_fields s b
    obtain ⟨-, q2, q3⟩ := setOptimizationMode_status s b
    by_cases hb : s.maximize = b
    · rw [q3 hb]; exact hI
    · refine protoInv_transfer s _ hI t3 [] (by rw [f1, List.append_nil]) (fun c' hc' => absurd hc' List.not_mem_nil)
        (le_of_eq f2.symm) (hk _ (by simp)) g3 ?_ (fun h => ?_) (fun h => (mutators_untouched s h c e b m p).2.2.1)
      · cases hs : s.status <;> simp [setOptimizationMode, hs, hb]
      · exfalso; rcases h with h | h
        · exact (q2 hb).2 h
        · exact (q2 hb).1 h
  · -- add_space_dimensions_and_embed
    obtain ⟨f1, f2⟩ := addSpaceDimensionsAndEmbed_fields s m
    obtain ⟨q1, q2⟩ := addSpaceDimensionsAndEmbed_status s m
    refine protoInv_transfer s _ hI t4 [] (by rw [f1, List.append_nil]) (fun c' hc' => absurd hc' List.not_mem_nil)
      (by rw [f2]; exact Nat.le_add_right _ _) (hk _ (by simp)) g4 ?_ (fun h => ?_)
      (fun h => (mutators_untouched s h c e b m p).2.2.2.1)
    · rw [q1]; by_cases h : s.status = .UNSATISFIABLE <;> simp [h]
    · exfalso; rcases h with h | h
      · exact q2 (Or.inr (Or.inr h))
      · exact q2 (Or.inr (Or.inl h))
  · -- set_control_parameter(PRICING_*)
    refine protoInv_transfer s _ hI t5 [] (List.append_nil _).symm (fun c' hc' => absurd hc' List.not_mem_nil)
      (le_refl _) (hk _ (by simp)) g5 Iff.rfl (fun h => ?_) (fun h => (mutators_untouched s h c e b m p).2.2.2.2)
    exact hI.claims h

/-! ### clause 3 -/

/-- the end of `is_lp_satisfiable()` on a PARTIALLY_SATISFIABLE state: from the outcome of
    `process_pending_constraints()` to the conclusion of the clause -/
theorem proto_finish (s s1 : LPState) (hn : 0 < s.external_space_dim)
    (hl : ∀ c ∈ s.input_cs, c.coeffs.length ≤ s.external_space_dim)
    (hk : s1.obj = s.obj ∧ s1.maximize = s.maximize ∧ s1.external_space_dim = s.external_space_dim ∧
      s1.input_cs = s.input_cs ∧ s1.pricing = s.pricing)
    (hout : (s1.status = .UNSATISFIABLE ∧ ∀ x, ¬ csSem s.input_cs x) ∨
      (ReadyS s.input_cs s.external_space_dim s1 ∧ (s1.status = .SATISFIABLE ∨
        ((s1.status = .OPTIMIZED ∨ s1.status = .UNBOUNDED) ∧ LPClaims s.input_cs s.problem s1))))
    (s' : LPState) (r : Bool)
    (hs' : { s1 with first_pending := s1.input_cs.length, internal_space_dim := s1.external_space_dim } = s')
    (hr : (s1.status != .UNSATISFIABLE) = r) :
    ProtoInv s' ∧ s'.input_cs = s.input_cs ∧ SameData s s' ∧
      (r = false → s'.status = .UNSATISFIABLE ∧ ∀ x, ¬ csSem s.input_cs x) ∧
      (r = true → Solved s'.status ∧ (∃ x, csSem s.input_cs x) ∧
        ReadyS s'.input_cs s'.external_space_dim s') := by
  subst hs' hr
  obtain ⟨k1, k2, k3, k4, k5⟩ := hk
  have hne : (s1.status = .SATISFIABLE ∨ s1.status = .OPTIMIZED ∨ s1.status = .UNBOUNDED) →
      s1.status ≠ .UNSATISFIABLE := by
    intro h hh
    rcases h with h | h | h <;> rw [h] at hh <;> cases hh
  have hne' : (s1.status = .SATISFIABLE ∨
      ((s1.status = .OPTIMIZED ∨ s1.status = .UNBOUNDED) ∧ LPClaims s.input_cs s.problem s1)) →
      s1.status ≠ .UNSATISFIABLE := by
    intro h
    rcases h with h | ⟨h | h, -⟩
    · exact hne (Or.inl h)
    · exact hne (Or.inr (Or.inl h))
    · exact hne (Or.inr (Or.inr h))
  have hR : ReadyS s.input_cs s.external_space_dim s1 →
      ReadyS s1.input_cs s1.external_space_dim
        { s1 with first_pending := s1.input_cs.length, internal_space_dim := s1.external_space_dim } := by
    intro R
    have R' : ReadyS s.input_cs s.external_space_dim
        { s1 with first_pending := s1.input_cs.length, internal_space_dim := s1.external_space_dim } :=
      readyS_congr (s := s1) rfl rfl rfl rfl rfl R
    rw [← k4, ← k3] at R'
    exact R'
  refine ⟨⟨fun _ => ⟨rfl, rfl⟩, ?_, Nat.le_refl _, ?_, ?_, ?_⟩, k4, ⟨k1, k2, k3, k5⟩, ?_, ?_⟩
  · show ∀ c ∈ s1.input_cs, c.coeffs.length ≤ s1.external_space_dim
    rw [k4, k3]; exact hl
  · intro h x hx
    have h' : s1.status = .UNSATISFIABLE := h
    have hx' : csSem s.input_cs x := by rw [← k4]; exact hx
    rcases hout with ⟨-, a⟩ | ⟨-, a⟩
    · exact a x hx'
    · exact hne' a h'
  · intro h
    have h' : s1.status = .OPTIMIZED ∨ s1.status = .UNBOUNDED := h
    rcases hout with ⟨a, -⟩ | ⟨-, a | ⟨-, cl⟩⟩
    · rcases h' with h | h <;> rw [a] at h <;> cases h
    · rcases h' with h | h <;> rw [a] at h <;> cases h
    · have cl' : LPClaims s.input_cs s.problem
          { s1 with first_pending := s1.input_cs.length, internal_space_dim := s1.external_space_dim } := cl
      show LPClaims s1.input_cs _ _
      rw [k4]
      exact LPClaims_congr s.input_cs s.problem _ _ k1 k2 cl'
  · rcases hout with ⟨a, -⟩ | ⟨R, -⟩
    · exact Or.inl a
    · refine Or.inr (Or.inr ⟨?_, Nat.le_refl _, ?_⟩)
      · show 0 < s1.external_space_dim
        rw [k3]; exact hn
      · show ReadyS (List.take s1.input_cs.length s1.input_cs) s1.external_space_dim _
        rw [List.take_length]
        exact hR R
  · intro h
    rcases hout with ⟨a, b⟩ | ⟨-, a⟩
    · exact ⟨a, b⟩
    · exfalso
      have hs := hne' a
      cases hst : s1.status
      · exact hs hst
      all_goals (rw [hst] at h; exact absurd h (by decide))
  · intro h
    rcases hout with ⟨a, -⟩ | ⟨R, a⟩
    · rw [a] at h; cases h
    · refine ⟨?_, ready_exists _ _ _ R.ready, hR R⟩
      show Solved s1.status
      rcases a with a | ⟨a | a, -⟩
      · exact Or.inl a
      · exact Or.inr (Or.inr a)
      · exact Or.inr (Or.inl a)

theorem proto_isLpSatisfiable (fc : Chooser) (hfc : ChooserOK fc) (s : LPState) (hI : ProtoInv s)
    (hn : 0 < s.external_space_dim) (hnd : NoNewDims s) (hobj : s.obj.coeffs.length ≤ s.external_space_dim)
    (fuel : Nat) (s' : LPState) (r : Bool) (h : isLpSatisfiable fc fuel s = some (s', r)) :
    ProtoInv s' ∧ s'.input_cs = s.input_cs ∧ SameData s s' ∧
      (r = false → s'.status = .UNSATISFIABLE ∧ ∀ x, ¬ csSem s.input_cs x) ∧
      (r = true → Solved s'.status ∧ (∃ x, csSem s.input_cs x) ∧
        ReadyS s'.input_cs s'.external_space_dim s') := by
  obtain ⟨-, q2, -, q4⟩ := isLpSatisfiable_statusInv fc fuel s s' r hI.st h
  by_cases hp : s.status = .PARTIALLY_SATISFIABLE
  · rcases hI.basis with hb | ⟨hU, hlg⟩ | ⟨h1, h2, h3⟩
    · rw [hp] at hb; cases hb
    · -- never solved before
      rw [isLpSatisfiable_untouched fc fuel s hU] at h
      cases hpp : processPendingConstraints fc fuel (firstCall s) with
      | none => rw [hpp] at h; cases h
      | some s1 =>
        rw [hpp] at h
        simp only [Option.some.injEq, Prod.mk.injEq] at h
        obtain ⟨hs', hr⟩ := h
        have hF := firstCall_fresh s hU hn hI.lens
        have hlg' : (firstCall s).last_generator = ⟨[], 1⟩ := hlg
        have hk := ppc_keeps fc fuel (firstCall s) s1 hpp
        refine proto_finish s s1 hn hI.lens hk ?_ s' r hs' hr
        by_cases hu : s1.status = .UNSATISFIABLE
        · left
          rcases ppc_fresh fc hfc fuel (firstCall s) s1 hF hlg' hpp with ⟨-, a2⟩ | ⟨a1, -⟩ | ⟨a1, -⟩
          · exact ⟨hu, a2⟩
          · rcases a1 with a | a <;> rw [hu] at a <;> cases a
          · rw [hu] at a1; cases a1
        · right
          obtain ⟨R, -, -, -, -, -, st⟩ := ppc_fresh_readyS fc hfc fuel (firstCall s) s1 hF hlg' hpp hu
          refine ⟨R, ?_⟩
          rcases st with a | a | a
          · exact Or.inl a
          · exact Or.inr ⟨Or.inl a, ppc_fresh_trivial fc fuel (firstCall s) s1 hF hobj hpp (Or.inl a)⟩
          · exact Or.inr ⟨Or.inr a, ppc_fresh_trivial fc fuel (firstCall s) s1 hF hobj hpp (Or.inr a)⟩
    · -- incremental
      have hd : s.internal_space_dim = s.external_space_dim := by
        rcases hnd with hU | hd
        · rw [hU.int0] at h1; cases h1
        · exact hd
      have hS : IncrStart s := ⟨hn, hd, hI.lens, by rw [← hd]; exact h3⟩
      have hnc : (s.numCols == 0) = false := by
        have e1 := h3.ncols
        have e2 := h3.ready.tb.len2
        simp; omega
      unfold isLpSatisfiable at h
      simp only [hp, hnc, Bool.false_eq_true, if_false] at h
      cases hpp : processPendingConstraints fc fuel s with
      | none => rw [hpp] at h; cases h
      | some s1 =>
        rw [hpp] at h
        simp only [Option.some.injEq, Prod.mk.injEq] at h
        obtain ⟨hs', hr⟩ := h
        have hk := ppc_keeps fc fuel s s1 hpp
        refine proto_finish s s1 hn hI.lens hk ?_ s' r hs' hr
        rcases ppc_incremental fc hfc fuel s s1 hS hobj hpp with a | ⟨a1, -, -, a4⟩
        · exact Or.inl a
        · exact Or.inr ⟨a1, a4⟩
  · have := q4 hp
    subst this
    by_cases hu : s'.status = .UNSATISFIABLE
    · have hr : r = false := by
        cases r
        · rfl
        · exact absurd hu (q2.mp rfl)
      subst hr
      exact ⟨hI, rfl, ⟨rfl, rfl, rfl, rfl⟩, fun _ => ⟨hu, hI.unsat hu⟩, (fun h => by cases h)⟩
    · have hsol : Solved s'.status := by
        unfold Solved
        cases hs : s'.status
        · exact absurd hs hu
        · exact Or.inl rfl
        · exact Or.inr (Or.inl rfl)
        · exact Or.inr (Or.inr rfl)
        · exact absurd hs hp
      have hr : r = true := q2.mpr hu
      subst hr
      obtain ⟨R, -, -⟩ := proto_solved_ready s' hI hsol
      exact ⟨hI, rfl, ⟨rfl, rfl, rfl, rfl⟩, (fun h => by cases h), fun _ => ⟨hsol, ready_exists _ _ _ R.ready, R⟩⟩

/-! ### clause 4 -/

theorem proto_secondPhase (fc : Chooser) (hfc : ChooserOK fc) (s : LPState) (hI : ProtoInv s)
    (hn : 0 < s.external_space_dim) (hobj : s.obj.coeffs.length ≤ s.external_space_dim) (hsol : Solved s.status)
    (fuel : Nat) (s' : LPState) (h : secondPhase fc fuel s = some s') :
    ProtoInv s' ∧ (s'.status = .OPTIMIZED ∨ s'.status = .UNBOUNDED) ∧ LPClaims s.input_cs s.problem s' ∧
      ReadyS s'.input_cs s'.external_space_dim s' := by
  obtain ⟨R, f1, f2⟩ := proto_solved_ready s hI hsol
  have hst : s.status = .SATISFIABLE ∨
      ((s.status = .OPTIMIZED ∨ s.status = .UNBOUNDED) ∧ LPClaims s.input_cs s.problem s) := by
    rcases hsol with a | a | a
    · exact Or.inl a
    · exact Or.inr ⟨Or.inr a, hI.claims (Or.inr a)⟩
    · exact Or.inr ⟨Or.inl a, hI.claims (Or.inl a)⟩
  obtain ⟨w1, w2⟩ := after_ppc_second fc hfc fuel s s s' hn hI.lens hobj R ⟨rfl, rfl, rfl, rfl⟩ hst h
  obtain ⟨e1, e2, e3, e4, e5, e6, e7, e8⟩ := secondPhase_keeps fc fuel s s' h
  obtain ⟨t1, -⟩ := secondPhase_statusInv fc fuel s s' hI.st hsol h
  have hR' : ReadyS s'.input_cs s'.external_space_dim s' := by rw [e1, e4]; exact w2
  refine ⟨⟨t1, ?_, ?_, ?_, ?_, ?_⟩, e8, w1, hR'⟩
  · rw [e1, e4]; exact hI.lens
  · rw [e2, e1]; exact hI.fp
  · intro hu
    rcases e8 with a | a <;> rw [hu] at a <;> cases a
  · intro _
    rw [e1]
    exact LPClaims_congr s.input_cs s.problem _ _ e5 e6 w1
  · refine Or.inr (Or.inr ⟨by rw [e3, f2]; exact hn, by rw [e3, e4, f2], ?_⟩)
    rw [e2, f1, e3, f2, ← e1, List.take_length, ← e4]
    exact hR'

/-! ### the protocol -/

theorem protoSpec (fc : Chooser) (hfc : ChooserOK fc) : ProtoSpec fc :=
  ⟨proto_new,
    fun s hI c e b m p => proto_mutators s hI c e b m p,
    fun s hI hn hnd hobj fuel s' r h => proto_isLpSatisfiable fc hfc s hI hn hnd hobj fuel s' r h,
    fun s hI hn hobj hsol fuel s' h => proto_secondPhase fc hfc s hI hn hobj hsol fuel s' h⟩

end PPLV.Solver.Pend
