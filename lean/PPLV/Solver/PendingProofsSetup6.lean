import PPLV.Solver.PendingProofsSetup5

/-!
# C06 stage 3 (b1), part 6 — `tableau_setup_solutions` for a fresh problem

`setup_core`: for the data of a fresh problem (`InsCtx`), the tableau after insertion, sign normalisation
and the artificial columns has — among the valuations with `y 0 = 1`, non-negative columns, and zero from the
first artificial column on — exactly the solutions that project onto the solution set of the constraints.
`tableau_setup_solutions`: the same statement about the output of `ppcSetup` on a fresh state.
-/
namespace PPLV.Solver.Pend
open PPLV.Lin PPLV.Solver.Tab

namespace InsCtx
variable (C : InsCtx)

/-- the final state of the insertion loop -/
def fin : Ins := revFold C.pend.length C.step C.init

/-- the tableau handed to the first phase -/
def T2 (cost : Row) (base : List Nat) : List Row :=
  (ppcArtificials [] 0 C.N C.fin.worked (ppcNormalizeSigns C.fin.T) cost base C.SL).1

theorem fin_k : C.fin.k = 0 := by
  have := (C.insert_spec).k_eq
  unfold fin
  simpa using this

theorem T2_rows (cost : Row) (base : List Nat) :
    (C.T2 cost base).length = C.N ∧
    ∀ r, r < C.N → ∀ y : Val, (∀ col, C.SL ≤ col → col < C.numCols → y col = 0) →
      (rowVal ((C.T2 cost base).getD r []) y = 0 ↔ rowVal (C.fin.T.getD r []) y = 0) := by
  have inv := C.insert_spec
  have hlen : (ppcNormalizeSigns C.fin.T).length = C.N := by rw [normalize_length]; exact inv.lenT
  have hrows : ∀ r, r < C.N → ((ppcNormalizeSigns C.fin.T).getD r []).length = C.numCols := by
    intro r hr
    rw [normalize_getD, normRow_length]
    exact (inv.rows r (by rw [show (revFold C.pend.length C.step C.init).k = 0 from C.fin_k]; omega) hr).1
  obtain ⟨a1, a2⟩ := artificials_fresh C.N C.numCols C.SL C.fin.worked _ cost base hlen hrows
  refine ⟨a1, fun r hr y hy => ?_⟩
  unfold T2
  rw [(a2 r hr).2 y hy, normalize_getD, normRow_val]

/-- **the semantic core of (b1)** -/
theorem setup_core (cost : Row) (base : List Nat)
    (H1 : ∀ c ∈ C.pend, (classify c).1 = .m7 → C.nn.getD (classify c).2 false = true)
    (H2 : ∀ u, C.nn.getD u false = true → ∃ c ∈ C.pend, forcesNonneg (classify c).1 = true ∧ (classify c).2 = u) :
    (∀ y : Val, y 0 = 1 → (∀ j, 1 ≤ j → 0 ≤ y j) → (∀ j, C.SL ≤ j → j < C.numCols → y j = 0) →
      Sol (C.T2 cost base) y → csSem C.pend (proj C.M y)) ∧
    (∀ x : Val, csSem C.pend x →
      ∃ y : Val, y 0 = 1 ∧ (∀ j, 1 ≤ j → 0 ≤ y j) ∧ (∀ j, C.SL ≤ j → y j = 0) ∧ Sol (C.T2 cost base) y ∧
        ∀ i, i < C.n → proj C.M y i = x i) := by
  have inv := C.insert_spec
  have hk : (revFold C.pend.length C.step C.init).k = 0 := C.fin_k
  obtain ⟨t1, t2⟩ := C.T2_rows cost base
  constructor
  · intro y h0 hnn hz hsol c hc
    by_cases ht : tabC c = true
    · apply inv.sound y h0 hnn (fun r _ hr => ?_) c (by simpa using hc) ht
      exact (t2 r hr y hz).mp (hsol r (by rw [t1]; exact hr))
    · -- a dropped constraint: a tautology, or `a·x_v ≥ 0` on an unsplit variable
      rcases hcl : classify c with ⟨cls, v⟩
      have htc := tabC_of hcl
      cases cls <;> simp only [tabCls] at htc <;> try exact absurd htc ht
      · exact trivTrue_holds hcl _
      · rw [m7_holds_iff hcl]
        have hnnv := H1 c hc (by rw [hcl])
        rw [hcl] at hnnv
        simp only at hnnv
        have hv : v < C.n := lt_of_lt_of_le (class_var_lt hcl rfl) (C.hlen c hc)
        obtain ⟨c1, -, c3, -⟩ := C.hM.cols v hv
        have hm2 := c3.mpr hnnv
        unfold proj
        simp only [hm2, bne_self_eq_false, Bool.false_eq_true, if_false, sub_zero]
        exact hnn _ c1
  · intro x hx
    have hxnn : ∀ u, u < C.n → C.nn.getD u false = true → 0 ≤ x u := by
      intro u _ hu
      obtain ⟨c, hc, hf, hv⟩ := H2 u hu
      rcases hcl : classify c with ⟨cls, v⟩
      rw [hcl] at hf hv
      simp only at hf hv
      subst hv
      exact nonneg_of_class hcl hf x (hx c hc)
    obtain ⟨e1, e2, e3, e4⟩ := enc_spec C.M C.nn C.n C.j C.hM x hxnn C.n (le_refl _)
    set y0 := enc C.M x C.n with hy0
    have hy0V : ∀ col, C.V ≤ col → y0 col = 0 := by
      intro col hcol
      apply e2 col (by unfold V at hcol; omega)
      intro u hu
      have := (C.hM.cols u hu).2.2.2
      unfold V at hcol; omega
    have hholds : ∀ c ∈ C.pend.drop 0, tabC c = true → c.holds (proj C.M y0) := by
      intro c hc _
      have hc' : c ∈ C.pend := by simpa using hc
      have := hx c hc'
      unfold ICon.holds at this ⊢
      rwa [dot_congr_lt c.coeffs (proj C.M y0) x (fun u hu => e3 u (lt_of_lt_of_le hu (C.hlen c hc')))]
    obtain ⟨y, y1, y2, y3, y4, y5⟩ := inv.complete y0 e1 (fun col _ => e4 col) hholds
    have hzero : ∀ j, C.SL ≤ j → y j = 0 := by
      intro j hj
      have hVj : C.V ≤ j := by unfold SL at hj; omega
      rw [y4 j hVj (Or.inr hj)]; exact hy0V j hVj
    refine ⟨y, y2, y3, hzero, fun r hr => ?_, fun i hi => ?_⟩
    · rw [t1] at hr
      exact (t2 r hr y (fun j hj _ => hzero j hj)).mpr (y5 r (by rw [hk]; omega) hr)
    · rw [proj_congr C.M C.nn C.n C.j C.hM y y0 (fun col hcol => y1 col (by unfold V; exact hcol))]
      exact e3 i hi

end InsCtx

/-! ### the fresh state -/

structure Fresh (s : LPState) : Prop where
  int0 : s.internal_space_dim = 0
  fp0 : s.first_pending = 0
  map0 : s.mapping = [(0, 0)]
  nc : s.numCols = 2
  tab : s.tableau = []
  base0 : s.base = []
  npos : 0 < s.external_space_dim
  lens : ∀ c ∈ s.input_cs, c.coeffs.length ≤ s.external_space_dim

/-- first column that is zero in the solutions considered: the first artificial column, or the sign
    column when there is no artificial -/
def artStart (b numCols : Nat) : Nat := if b ≠ 0 then b else numCols - 1

/-- the valuations of the tableau that the first phase is looking for: `y 0 = 1`, non-negative columns,
    zero on the artificial columns and on the sign column, every row satisfied -/
def TabSol (T : List Row) (numCols b : Nat) (y : Val) : Prop :=
  y 0 = 1 ∧ (∀ j, 1 ≤ j → 0 ≤ y j) ∧ (∀ j, artStart b numCols ≤ j → j < numCols → y j = 0) ∧ Sol T y

theorem ppcRecompute_fresh {s : LPState} (hF : Fresh s) : ppcRecompute s = (s, true) := by
  unfold ppcRecompute; rw [hF.int0]; rfl

theorem ppcMerge_fresh {s : LPState} (hF : Fresh s) (l : List Bool) : ppcMerge s l = (s, []) := by
  unfold ppcMerge; rw [hF.int0]; rfl

theorem pad_replicate (k numCols : Nat) :
    (List.replicate k ([] : Row)).map (fun (r : Row) => r ++ zeros (numCols - r.length)) =
      List.replicate k (zeros numCols) := by
  rw [List.map_replicate]; rfl

theorem ppcTrivial_cases (s : LPState) (b e : Nat) (hn : 0 < s.external_space_dim) :
    (ppcTrivial s b e = .phase1 s b e ∧ s.tableau ≠ []) ∨
    (∃ s', ppcTrivial s b e = .done s' ∧ s'.tableau = s.tableau ∧ s'.mapping = s.mapping ∧
      s'.numCols = s.numCols ∧ s.tableau = [] ∧ s'.status ≠ .UNSATISFIABLE) := by
  unfold ppcTrivial
  have h0 : (s.external_space_dim == 0) = false := by simp; omega
  rw [h0]
  simp only [Bool.false_eq_true, if_false]
  by_cases ht : s.tableau = []
  · right
    have hl : (s.tableau.length == 0) = true := by rw [ht]; rfl
    rw [hl]
    simp only [if_true]
    split
    · exact ⟨_, rfl, rfl, rfl, rfl, ht, by simp⟩
    · exact ⟨_, rfl, rfl, rfl, rfl, ht, by simp⟩
  · left
    have : (s.tableau.length == 0) = false := by
      cases hl : s.tableau with
      | nil => exact absurd hl ht
      | cons a l => rfl
    rw [this]
    exact ⟨rfl, ht⟩

end PPLV.Solver.Pend
