import PPLV.Solver.PIPCoreProofsDefs
import Mathlib.Algebra.Order.Field.Rat
import Mathlib.Tactic.FieldSimp
import Mathlib.Tactic.Linarith
import Mathlib.Tactic.Ring
/-!
# C07 core — node family, part 1: the exit "solution found" of `PIP_Solution_Node::solve`
(PIP_Tree.cc:3357-3392)

`final_node_correct`: a well-formed node with lexico-positive columns whose cached signs (read weakly,
`SignAt`) are all `POSITIVE`/`ZERO`, whose basic solution is integral on the problem variables
(`solutionIntegral`) and which has the integrality invariant `IntInv`, describes at `q` the point
`nd.point q`, and that point is the lexicographic minimum of the feasible valuations.
-/
namespace PPLV.PIPCore
namespace Node

/-! ### `dotQ`, `dot` against a zero / integral vector -/

theorem dotQ_nil_left (y : List ℚ) : dotQ [] y = 0 := by cases y <;> rfl
theorem dotQ_nil_right (r : List Int) : dotQ r [] = 0 := by cases r <;> rfl
theorem dotQ_cons (a : Int) (r : List Int) (x : ℚ) (y : List ℚ) :
    dotQ (a :: r) (x :: y) = (a : ℚ) * x + dotQ r y := rfl

theorem dotQ_zero : ∀ (r : List Int) (ys : List ℚ), (∀ y ∈ ys, y = 0) → dotQ r ys = 0
  | [], ys, _ => dotQ_nil_left ys
  | a :: r, [], _ => dotQ_nil_right _
  | a :: r, y :: ys, h => by
    rw [dotQ_cons, h y (by simp), dotQ_zero r ys (fun z hz => h z (by simp [hz]))]; simp

theorem dot_zero_right : ∀ (r ys : List Int), (∀ y ∈ ys, y = 0) → dot r ys = 0
  | [], ys, _ => dot_nil_left ys
  | a :: r, [], _ => dot_nil_right _
  | a :: r, y :: ys, h => by
    rw [dot_cons, h y (by simp), dot_zero_right r ys (fun z hz => h z (by simp [hz]))]; simp

theorem isIntQ_add {x y : ℚ} (hx : IsIntQ x) (hy : IsIntQ y) : IsIntQ (x + y) := by
  obtain ⟨a, rfl⟩ := hx; obtain ⟨b, rfl⟩ := hy; exact ⟨a + b, by push_cast; rfl⟩

theorem isIntQ_mul {x y : ℚ} (hx : IsIntQ x) (hy : IsIntQ y) : IsIntQ (x * y) := by
  obtain ⟨a, rfl⟩ := hx; obtain ⟨b, rfl⟩ := hy; exact ⟨a * b, by push_cast; rfl⟩

theorem isIntQ_int (a : Int) : IsIntQ (a : ℚ) := ⟨a, rfl⟩
theorem isIntQ_zero : IsIntQ 0 := ⟨0, by simp⟩

theorem isIntQ_dotQ : ∀ (r : List Int) (ys : List ℚ), (∀ y ∈ ys, IsIntQ y) → IsIntQ (dotQ r ys)
  | [], ys, _ => by rw [dotQ_nil_left]; exact isIntQ_zero
  | a :: r, [], _ => by rw [dotQ_nil_right]; exact isIntQ_zero
  | a :: r, y :: ys, h => by
    rw [dotQ_cons]
    exact isIntQ_add (isIntQ_mul (isIntQ_int a) (h y (by simp)))
      (isIntQ_dotQ r ys (fun z hz => h z (by simp [hz])))

theorem mem_natGet {l : List Nat} {x : Nat} (h : x ∈ l) : ∃ j, j < l.length ∧ natGet l j = x := by
  obtain ⟨j, hj, rfl⟩ := List.getElem_of_mem h
  refine ⟨j, hj, ?_⟩
  unfold natGet
  rw [List.getD_eq_getElem?_getD, List.getElem?_eq_getElem hj]; rfl

/-- the members of `var_column` are column variables -/
theorem varColumn_mem {nd : SolNode} (hwf : WF nd) {x : Nat} (h : x ∈ nd.varColumn) :
    x < nd.mapping.length ∧ boolGet nd.basis x = true := by
  obtain ⟨j, hj, rfl⟩ := mem_natGet h
  have := hwf.vc_ok j (by rw [← hwf.vc_len]; exact hj)
  exact ⟨this.1, this.2.1⟩

/-! ### the basic point -/

/-- the value of the parametric row `i` at `q` -/
def D (nd : SolNode) (q : List Int) (i : Nat) : Int := dot (mrow nd.tab.t i) q

/-- the rational basic point -/
def bQ (nd : SolNode) (q : List Int) (k : Nat) : ℚ :=
  if boolGet nd.basis k then 0 else (D nd q (natGet nd.mapping k) : ℚ) / (nd.tab.den : ℚ)

/-- the integer basic point (`update_solution`) -/
def bZ (nd : SolNode) (q : List Int) (k : Nat) : Int :=
  if boolGet nd.basis k then 0 else D nd q (natGet nd.mapping k) / nd.tab.den

theorem point_eq (nd : SolNode) (q : List Int) : nd.point q = (List.range nd.tab.ns).map (bZ nd q) := rfl

theorem tabSatQ_basic {nd : SolNode} (hwf : WF nd) (q : List Int) : TabSatQ nd (bQ nd q) q := by
  intro i hi
  unfold RowHoldsQ
  obtain ⟨_, hb, hm⟩ := hwf.vr_ok i hi
  have hden : (nd.tab.den : ℚ) ≠ 0 := by exact_mod_cast (ne_of_gt hwf.den_pos)
  have h0 : dotQ (mrow nd.tab.s i) (nd.varColumn.map (bQ nd q)) = 0 := by
    apply dotQ_zero
    intro y hy
    obtain ⟨x, hx, rfl⟩ := List.mem_map.1 hy
    unfold bQ
    rw [(varColumn_mem hwf hx).2]; rfl
  rw [h0]
  unfold bQ
  rw [hb, hm]
  simp only [Bool.false_eq_true, if_false, D]
  field_simp
  ring

/-- `solutionIntegral`: the basic point is integral on the problem variables -/
theorem bQ_int_of_solutionIntegral {nd : SolNode} (hwf : WF nd) (q : List Int)
    (hsi : solutionIntegral nd = true) : ∀ k, k < nd.tab.ns → IsIntQ (bQ nd q k) := by
  intro k hk
  unfold solutionIntegral at hsi
  rw [List.all_eq_true] at hsi
  have := hsi k (List.mem_range.2 hk)
  rw [Bool.or_eq_true] at this
  unfold bQ
  rcases this with h | h
  · rw [h]; exact isIntQ_zero
  · cases hb : boolGet nd.basis k with
    | true => exact isIntQ_zero
    | false =>
      simp only [Bool.false_eq_true, if_false]
      rw [List.all_eq_true] at h
      have hdvd : nd.tab.den ∣ D nd q (natGet nd.mapping k) := by
        apply dvd_dot
        intro a ha
        have := h a ha
        simp only [decide_eq_true_eq] at this
        exact Int.dvd_of_emod_eq_zero this
      obtain ⟨z, hz⟩ := hdvd
      have hden : (nd.tab.den : ℚ) ≠ 0 := by exact_mod_cast (ne_of_gt hwf.den_pos)
      refine ⟨z, ?_⟩
      rw [hz]; push_cast; field_simp

/-- an integral basic point means: `den` divides the value of every parametric row -/
theorem den_dvd_of_int {nd : SolNode} (hwf : WF nd) (q : List Int)
    (hint : ∀ k, k < nd.mapping.length → IsIntQ (bQ nd q k)) :
    ∀ i, i < nd.tab.s.length → nd.tab.den ∣ D nd q i := by
  intro i hi
  obtain ⟨hlt, hb, hm⟩ := hwf.vr_ok i hi
  obtain ⟨z, hz⟩ := hint _ hlt
  unfold bQ at hz
  rw [hb, hm] at hz
  simp only [Bool.false_eq_true, if_false] at hz
  have hden : (nd.tab.den : ℚ) ≠ 0 := by exact_mod_cast (ne_of_gt hwf.den_pos)
  rw [div_eq_iff hden] at hz
  refine ⟨z, ?_⟩
  have : ((D nd q i : Int) : ℚ) = ((nd.tab.den * z : Int) : ℚ) := by rw [hz]; push_cast; ring
  exact_mod_cast this

theorem isBasic_bZ {nd : SolNode} (hwf : WF nd) (q : List Int)
    (hdvd : ∀ i, i < nd.tab.s.length → nd.tab.den ∣ D nd q i) : IsBasic nd (bZ nd q) q := by
  intro k hk
  refine ⟨fun hb => by unfold bZ; rw [hb]; rfl, fun hb => ?_⟩
  unfold bZ
  rw [hb]
  simp only [Bool.false_eq_true, if_false]
  exact Int.mul_ediv_cancel' (hdvd _ ((hwf.map_ok k hk).2 hb).1)

theorem feasible_bZ {nd : SolNode} (hwf : WF nd) (q : List Int)
    (hdvd : ∀ i, i < nd.tab.s.length → nd.tab.den ∣ D nd q i)
    (hnn : ∀ i, i < nd.tab.s.length → 0 ≤ D nd q i) : Feasible nd (bZ nd q) q := by
  refine ⟨fun i hi => ?_, fun k hk => ?_⟩
  · unfold RowHolds
    obtain ⟨_, hb, hm⟩ := hwf.vr_ok i hi
    have h0 : dot (mrow nd.tab.s i) (nd.varColumn.map (bZ nd q)) = 0 := by
      apply dot_zero_right
      intro y hy
      obtain ⟨x, hx, rfl⟩ := List.mem_map.1 hy
      unfold bZ
      rw [(varColumn_mem hwf hx).2]; rfl
    rw [h0]
    unfold bZ
    rw [hb, hm]
    simp only [Bool.false_eq_true, if_false, Int.zero_add]
    exact Int.mul_ediv_cancel' (hdvd i hi)
  · unfold bZ
    cases hb : boolGet nd.basis k with
    | true => exact Int.le_refl 0
    | false =>
      simp only [Bool.false_eq_true, if_false]
      exact Int.ediv_nonneg (hnn _ ((hwf.map_ok k hk).2 hb).1) (Int.le_of_lt hwf.den_pos)

end Node

open Node in
/-- **the exit "solution found"** (PIP_Tree.cc:3357-3392): the point `update_solution` computes is feasible
    and lexicographically minimal.  The cached signs are only assumed in their weak reading (`SignAt`):
    integrality of the basic point (on the problem variables by `solutionIntegral`, on the slack variables by
    `IntInv`) turns `POSITIVE`/`ZERO` read weakly into `t_i(q) ≥ 0`. -/
theorem final_node_correct {nd : SolNode} {q : List Int} (hwf : WF nd) (hlp : LexPos nd)
    (hq : ParamVec nd.tab.nt q) (hsign : SignAt nd q)
    (hpz : ∀ k, k < nd.tab.t.length → signGet nd.sign k = .positive ∨ signGet nd.sign k = .zero)
    (hsi : solutionIntegral nd = true) (hint : IntInv nd q) : IsLexMin nd q (nd.point q) := by
  have hall := hint (bQ nd q) (tabSatQ_basic hwf q) (bQ_int_of_solutionIntegral hwf q hsi)
  have hdvd := den_dvd_of_int hwf q hall
  have hnn : ∀ i, i < nd.tab.s.length → 0 ≤ D nd q i := by
    intro i hi
    have hw := hsign i
    have hex := signWeak_exact_of_dvd hwf.den_pos (hdvd i hi) hw
    rcases hpz i (by rw [← hwf.rows_eq]; exact hi) with h | h
    · exact hex.1 h
    · rw [hex.2.1 h]
  refine ⟨bZ nd q, feasible_bZ hwf q hdvd hnn, point_eq nd q, fun w hw => ?_⟩
  exact lex_basic_min_prefix nd w (bZ nd q) q nd.tab.ns hwf hlp hq.1 hw (isBasic_bZ hwf q hdvd)
    (by rw [hwf.map_len]; omega)

open Node in
/-- **a fresh root has the integrality invariant**: `den = 1` and the column variables are exactly the
    problem variables, so every row variable is an integer combination of them and of the parameters -/
theorem root_intinv {nd : SolNode} {q : List Int} (hwf : WF nd) (hden : nd.tab.den = 1)
    (hroot : ∀ k, k < nd.tab.ns → boolGet nd.basis k = true ∧ natGet nd.mapping k = k) : IntInv nd q := by
  intro v hsat hv k hk
  have hvc : ∀ j, j < nd.tab.ns → natGet nd.varColumn j = j := by
    intro j hj
    obtain ⟨hb, hm⟩ := hroot j hj
    have := ((hwf.map_ok j (by rw [hwf.map_len]; omega)).1 hb).2
    rw [hm] at this; exact this
  cases hb : boolGet nd.basis k with
  | true =>
    obtain ⟨hm, hvck⟩ := (hwf.map_ok k hk).1 hb
    rw [hvc _ hm] at hvck
    exact hv k (by rw [← hvck]; exact hm)
  | false =>
    obtain ⟨hm, hvr⟩ := (hwf.map_ok k hk).2 hb
    have hrow := hsat _ hm
    unfold RowHoldsQ at hrow
    rw [hvr, hden] at hrow
    have hcols : ∀ y ∈ nd.varColumn.map v, IsIntQ y := by
      intro y hy
      obtain ⟨x, hx, rfl⟩ := List.mem_map.1 hy
      obtain ⟨j, hj, rfl⟩ := mem_natGet hx
      rw [hwf.vc_len] at hj
      rw [hvc j hj]; exact hv j hj
    have : v k = dotQ (mrow nd.tab.s (natGet nd.mapping k)) (nd.varColumn.map v)
        + ((dot (mrow nd.tab.t (natGet nd.mapping k)) q : Int) : ℚ) := by
      rw [← hrow]; push_cast; ring
    rw [this]
    exact isIntQ_add (isIntQ_dotQ _ _ hcols) (isIntQ_int _)

end PPLV.PIPCore
