import PPLV.Solver.PIPCoreProofsTree
/-!
# C07 core — tree family, part 2: what the node built after the two recursive calls MEANS
(`assemble`, PIP_Tree.cc:3217-3353)

With `q` the parameter vector of the node (its own artificial parameters appended), `cs` the constraints
the node had saved, and a test that partitions (`fTest ≥ 0` iff not `tTest ≥ 0`, which is what
`complement_assign(·, 1)` gives on integer points):

    eval (assemble …) = if cs hold at q then (if tTest ≥ 0 at q then eval tNode else eval fNode) else ⊥

in all the shapes the code produces: nothing; a new decision node above a child that already has a false
child; the child itself with the parent's artificial parameters / constraints / the test merged into its
own lists; a decision node with two children (wrapped in a second one when there are saved constraints).
-/
namespace PPLV.PIPCore
namespace TreeP

/-- `add_constraint` on a node's list, read at the node's own vector -/
theorem consHold_addConstraint (cs : List Row) (test : Row) (q : List Int) :
    consHold (addConstraint cs test) q = (consHold cs q && decide (0 ≤ dot test q)) := by
  unfold addConstraint
  rw [consHold_append, consHold_singleton]
  have h : decide (0 ≤ dot (rowNormalizeAll test) q) = decide (0 ≤ dot test q) :=
    decide_eq_decide.mpr (rowNormalizeAll_sign test q)
  rw [h]

/-- the child's node with the parent's lists merged in (PIP_Tree.cc:3250-3264, 3298-3313) evaluates, from
    the parent's entry vector, like "saved constraints and test, then the child from the parent's vector" -/
theorem evalC_mergeInto (aps : List ArtP) (cs : List Row) (test : Row) (c : CTree)
    (qpre q : List Int) (hq : q = extendArts aps qpre)
    (hc : c.hasFalseChild = false) (hcs : RowsLe cs q.length) (ht : test.length ≤ q.length) :
    (c.mergeInto aps cs test).evalC qpre =
      if (consHold cs q && decide (0 ≤ dot test q)) = true then c.evalC q else none := by
  cases c with
  | sol nd =>
    obtain ⟨e, he, _⟩ := extendArts_prefix nd.arts q
    simp only [CTree.mergeInto, CTree.evalC]
    rw [extendArts_append, ← hq, he, consHold_merge cs nd.cons test q e hcs ht]
    cases consHold cs q <;> cases decide (0 ≤ dot test q) <;> cases consHold nd.cons (q ++ e) <;> rfl
  | dec arts cons t f =>
    cases f with
    | some f' => simp [CTree.hasFalseChild] at hc
    | none =>
      obtain ⟨e, he, _⟩ := extendArts_prefix arts q
      simp only [CTree.mergeInto, CTree.evalC]
      rw [extendArts_append, ← hq, he, consHold_merge cs cons test q e hcs ht]
      cases consHold cs q <;> cases decide (0 ≤ dot test q) <;> cases consHold cons (q ++ e) <;> rfl

/-- a child that is kept below a new decision node without false child (PIP_Tree.cc:3237-3247, 3285-3295) -/
theorem evalC_decAbove (aps : List ArtP) (cs : List Row) (test : Row) (c : CTree)
    (qpre q : List Int) (hq : q = extendArts aps qpre) :
    (CTree.dec aps (addConstraint cs test) c none).evalC qpre =
      if (consHold cs q && decide (0 ≤ dot test q)) = true then c.evalC q else none := by
  simp only [CTree.evalC]
  rw [← hq, consHold_addConstraint]

/-- one child only -/
theorem evalRes_oneChild (aps : List ArtP) (cs : List Row) (test : Row) (c : CTree)
    (qpre q : List Int) (hq : q = extendArts aps qpre)
    (hcs : RowsLe cs q.length) (ht : test.length ≤ q.length) :
    evalRes (if c.hasFalseChild then some (.dec aps (addConstraint cs test) c none)
             else some (c.mergeInto aps cs test)) qpre =
      if (consHold cs q && decide (0 ≤ dot test q)) = true then c.evalC q else none := by
  cases hfc : c.hasFalseChild with
  | true => simp only [if_true, evalRes]; exact evalC_decAbove aps cs test c qpre q hq
  | false =>
    simp only [Bool.false_eq_true, if_false, evalRes]
    exact evalC_mergeInto aps cs test c qpre q hq hfc hcs ht

/-- a decision node with both children -/
theorem evalC_twoChildren (a : List ArtP) (test : Row) (t f : CTree) (qpre : List Int) :
    (CTree.dec a (addConstraint [] test) t (some f)).evalC qpre =
      if 0 ≤ dot test (extendArts a qpre) then t.evalC (extendArts a qpre)
      else f.evalC (extendArts a qpre) := by
  simp only [CTree.evalC]
  rw [consHold_addConstraint, consHold_nil, Bool.true_and]
  by_cases h : 0 ≤ dot test (extendArts a qpre) <;> simp [h]

end TreeP

open TreeP

/-- **(T2)** the meaning of the node `solve` builds after the two recursive calls -/
theorem assemble_eval (aps : List ArtP) (cs : List Row) (tTest fTest : Row) (tN fN : Option CTree)
    (qpre q : List Int) (hq : q = extendArts aps qpre) (hcs : RowsLe cs q.length)
    (ht : tTest.length ≤ q.length) (hf : fTest.length ≤ q.length)
    (hpart : (0 ≤ dot fTest q) ↔ ¬ (0 ≤ dot tTest q)) :
    evalRes (assemble aps cs tTest fTest tN fN) qpre =
      if consHold cs q = true then (if 0 ≤ dot tTest q then evalRes tN q else evalRes fN q)
      else none := by
  cases tN with
  | none =>
    cases fN with
    | none =>
      simp only [assemble, evalRes]
      split <;> [(split <;> rfl); rfl]
    | some f =>
      simp only [assemble]
      rw [evalRes_oneChild aps cs fTest f qpre q hq hcs hf]
      simp only [evalRes]
      by_cases h : 0 ≤ dot tTest q
      · have h' : ¬ 0 ≤ dot fTest q := fun hh => (hpart.mp hh) h
        simp [h, h']
      · have h' : 0 ≤ dot fTest q := hpart.mpr h
        simp [h, h']
  | some t =>
    cases fN with
    | none =>
      simp only [assemble]
      rw [evalRes_oneChild aps cs tTest t qpre q hq hcs ht]
      simp only [evalRes]
      by_cases h : 0 ≤ dot tTest q <;> simp [h]
    | some f =>
      simp only [assemble]
      cases hce : cs.isEmpty with
      | true =>
        have hnil : cs = [] := List.isEmpty_iff.mp hce
        simp only [Bool.not_true, Bool.false_eq_true, if_false, evalRes]
        rw [evalC_twoChildren, ← hq, hnil, consHold_nil]
        simp
      | false =>
        simp only [Bool.not_false, if_true, evalRes]
        have h2 := evalC_twoChildren [] tTest t f q
        simp only [extendArts] at h2
        simp only [CTree.evalC, extendArts] at h2 ⊢
        rw [← hq]
        by_cases hc : consHold cs q = true
        · rw [if_pos hc, if_pos hc]; exact h2
        · rw [if_neg hc, if_neg hc]

/-- **(T2)** `assemble_some`: a point comes from the child on whose side of the test `q` lies, and the
    saved constraints hold -/
theorem assemble_some {aps : List ArtP} {cs : List Row} {tTest fTest : Row} {tN fN : Option CTree}
    {qpre q x : List Int} (hq : q = extendArts aps qpre) (hcs : RowsLe cs q.length)
    (ht : tTest.length ≤ q.length) (hf : fTest.length ≤ q.length)
    (hpart : (0 ≤ dot fTest q) ↔ ¬ (0 ≤ dot tTest q))
    (h : evalRes (assemble aps cs tTest fTest tN fN) qpre = some x) :
    consHold cs q = true ∧
      ((0 ≤ dot tTest q ∧ evalRes tN q = some x) ∨ (0 ≤ dot fTest q ∧ evalRes fN q = some x)) := by
  rw [assemble_eval aps cs tTest fTest tN fN qpre q hq hcs ht hf hpart] at h
  by_cases hc : consHold cs q = true
  · rw [if_pos hc] at h
    refine ⟨hc, ?_⟩
    by_cases h1 : 0 ≤ dot tTest q
    · rw [if_pos h1] at h; exact Or.inl ⟨h1, h⟩
    · rw [if_neg h1] at h; exact Or.inr ⟨hpart.mpr h1, h⟩
  · rw [if_neg hc] at h; cases h

/-- **(T2)** `assemble_none`: bottom means the saved constraints fail or the child on `q`'s side of the test
    is bottom -/
theorem assemble_none {aps : List ArtP} {cs : List Row} {tTest fTest : Row} {tN fN : Option CTree}
    {qpre q : List Int} (hq : q = extendArts aps qpre) (hcs : RowsLe cs q.length)
    (ht : tTest.length ≤ q.length) (hf : fTest.length ≤ q.length)
    (hpart : (0 ≤ dot fTest q) ↔ ¬ (0 ≤ dot tTest q))
    (h : evalRes (assemble aps cs tTest fTest tN fN) qpre = none) :
    consHold cs q = false ∨ (0 ≤ dot tTest q ∧ evalRes tN q = none)
      ∨ (0 ≤ dot fTest q ∧ evalRes fN q = none) := by
  rw [assemble_eval aps cs tTest fTest tN fN qpre q hq hcs ht hf hpart] at h
  by_cases hc : consHold cs q = true
  · rw [if_pos hc] at h
    by_cases h1 : 0 ≤ dot tTest q
    · rw [if_pos h1] at h; exact Or.inr (Or.inl ⟨h1, h⟩)
    · rw [if_neg h1] at h; exact Or.inr (Or.inr ⟨hpart.mpr h1, h⟩)
  · left; simpa using hc

/-! ### the test of `solve`: `fTest = complement_assign(tTest, 1)` (PIP_Tree.cc:3196) partitions -/

theorem extendArts_head {a : List ArtP} {qpre : List Int} (h : qpre.head? = some 1) :
    (extendArts a qpre).head? = some 1 := by
  obtain ⟨e, he, _⟩ := extendArts_prefix a qpre
  rw [he]
  cases qpre with
  | nil => cases h
  | cons b bs => exact h

theorem complement_partition {t : Row} {q : List Int} (hq : q.head? = some 1) (ht : t ≠ []) :
    (0 ≤ dot (complementAssign t 1) q) ↔ ¬ (0 ≤ dot t q) := by
  cases q with
  | nil => cases hq
  | cons b ps =>
    have hb : b = 1 := by simpa using hq
    subst hb
    cases t with
    | nil => exact absurd rfl ht
    | cons a as =>
      rw [complementAssign_one_cons, dot_cons, dot_cons, dot_neg]
      omega

theorem complement_length (t : Row) : (complementAssign t 1).length = t.length := by
  cases t with
  | nil => rfl
  | cons a as => rw [complementAssign_one_cons]; simp

/-- **(T2)** in the form `solveGo` uses it (PIP_Tree.cc:3161-3353): the false test is the complement of the
    true test, the vector starts with the constant-term column -/
theorem assemble_some_solve {aps : List ArtP} {cs : List Row} {tTest : Row} {tN fN : Option CTree}
    {qpre q x : List Int} (hq : q = extendArts aps qpre) (h1 : qpre.head? = some 1)
    (hcs : RowsLe cs q.length) (ht : tTest.length ≤ q.length) (hne : tTest ≠ [])
    (h : evalRes (assemble aps cs tTest (complementAssign tTest 1) tN fN) qpre = some x) :
    consHold cs q = true ∧
      ((0 ≤ dot tTest q ∧ evalRes tN q = some x) ∨ (dot tTest q < 0 ∧ evalRes fN q = some x)) := by
  have hq1 : q.head? = some 1 := by rw [hq]; exact extendArts_head h1
  have hpart := complement_partition hq1 hne
  obtain ⟨hc, hor⟩ := assemble_some hq hcs ht (by rw [complement_length]; exact ht) hpart h
  refine ⟨hc, ?_⟩
  rcases hor with h' | h'
  · exact Or.inl h'
  · exact Or.inr ⟨by have := hpart.mp h'.1; omega, h'.2⟩

/-! ### non-vacuity: one instance of each shape, one parameter `p`, test `p - 3 ≥ 0` / `-p + 2 ≥ 0`,
saved constraint `p - 1 ≥ 0`, one artificial parameter `⌊p / 2⌋` -/

/-- a solution node with one problem variable `x = (t·q) / 1`, `t = row` -/
def TreeP.exSol (row : Row) : CTree :=
  .sol { tab := ⟨[[0]], [row], 1, 1, row.length⟩, basis := [false], mapping := [0], varRow := [0],
         varColumn := [1], sign := [.positive], big := none, arts := [], cons := [] }

example : complementAssign [-3, 1, 0] 1 = [2, -1, 0] := by decide

-- both children: a decision node under a wrapper that carries the saved constraint
example :
    evalRes (assemble [⟨[0, 1], 2⟩] [[-1, 1]] [-3, 1, 0] [2, -1, 0]
      (some (exSol [0, 1, 1])) (some (exSol [7, 0, 0]))) [1, 5] = some [7]
    ∧ evalRes (assemble [⟨[0, 1], 2⟩] [[-1, 1]] [-3, 1, 0] [2, -1, 0]
      (some (exSol [0, 1, 1])) (some (exSol [7, 0, 0]))) [1, 2] = some [7]
    ∧ evalRes (assemble [⟨[0, 1], 2⟩] [[-1, 1]] [-3, 1, 0] [2, -1, 0]
      (some (exSol [0, 1, 1])) (some (exSol [7, 0, 0]))) [1, 0] = none := by decide

-- only the false child: merged into the solution node; the stored test is normalised (`[4,-2,0]` ↦ `[2,-1,0]`)
example :
    (match assemble [⟨[0, 1], 2⟩] [[-1, 1]] [-6, 2, 0] [4, -2, 0] none (some (exSol [7, 0, 0])) with
     | some (.sol nd) => some (nd.arts, nd.cons, nd.tab.t)
     | _ => none) = some ([⟨[0, 1], 2⟩], [[-1, 1], [2, -1, 0]], [[7, 0, 0]])
    ∧ evalRes (assemble [⟨[0, 1], 2⟩] [[-1, 1]] [-6, 2, 0] [4, -2, 0] none (some (exSol [7, 0, 0])))
        [1, 2] = some [7]
    ∧ evalRes (assemble [⟨[0, 1], 2⟩] [[-1, 1]] [-6, 2, 0] [4, -2, 0] none (some (exSol [7, 0, 0])))
        [1, 3] = none := by decide

-- only the true child, which has a false child: a new decision node above it
example :
    (assemble [] [[-1, 1]] [-3, 1] [2, -1]
      (some (.dec [] [[-5, 1]] (exSol [0, 1]) (some (exSol [9, 0])))) none).map CTree.hasFalseChild
      = some false
    ∧ evalRes (assemble [] [[-1, 1]] [-3, 1] [2, -1]
      (some (.dec [] [[-5, 1]] (exSol [0, 1]) (some (exSol [9, 0])))) none) [1, 4] = some [9]
    ∧ evalRes (assemble [] [[-1, 1]] [-3, 1] [2, -1]
      (some (.dec [] [[-5, 1]] (exSol [0, 1]) (some (exSol [9, 0])))) none) [1, 2] = none := by decide

-- the hypotheses of `assemble_some` on the first instance
example :
    let q := extendArts [⟨[0, 1], 2⟩] [1, 5]
    q = [1, 5, 2] ∧ RowsLe [[-1, 1]] q.length ∧ [-3, 1, 0].length ≤ q.length
      ∧ ((0 ≤ dot [2, -1, 0] q) ↔ ¬ (0 ≤ dot [-3, 1, 0] q)) := by
  refine ⟨by decide, ?_, by decide, by decide⟩
  intro r hr
  simp only [List.mem_singleton] at hr
  subst hr
  decide

end PPLV.PIPCore
