import PPLV.Solver.PendingProofsIncr7
import PPLV.Solver.PendingProofsSetup12

/-!
# C06 stage 3 — incremental set-up: solutions of the tableau handed over; `Phase1Start` from a canonical tableau
-/
namespace PPLV.Solver.Pend
open PPLV.Lin PPLV.Solver PPLV.Solver.Tab

namespace GCtx
variable (C : GCtx)

/-- a non-negative solution of the tableau handed over (artificials 0) satisfies the old rows and the inserted
    constraints -/
theorem asm_sound (unf : List Nat) (hU : C.Unf unf) (y : Val) (h0 : y 0 = 1) (hnn : ∀ col, 1 ≤ col → 0 ≤ y col)
    (hz : ∀ col, C.SL ≤ col → col < C.numCols → y col = 0) (hsol : Sol (C.artOut unf).1 y) :
    (∀ r, r < C.R0 → rowVal (C.T0.getD r []) y = 0) ∧
    ∀ c ∈ C.pend, tabC c = true → c.holds (proj C.M y) := by
  have inv := C.fin_inv
  have hs := (C.asm_rows unf hU y hz).mp hsol
  have hold : ∀ r, r < C.R0 → rowVal (C.T0.getD r []) y = 0 := by
    intro r hr
    rw [← inv.oldT r hr]
    exact hs r (by rw [inv.lenT]; unfold N; omega)
  refine ⟨hold, fun c hc ht => ?_⟩
  exact inv.sound y h0 hnn hold (fun r _ hr => hs r (by rw [inv.lenT]; exact hr)) c (by simpa using hc) ht

/-- every valuation of the old columns satisfying the old rows and the inserted constraints extends to a solution of
    the tableau handed over with all artificials 0 -/
theorem asm_complete (unf : List Nat) (hU : C.Unf unf) (y0 : Val) (h0 : y0 0 = 1) (hnn : ∀ col, 1 ≤ col → 0 ≤ y0 col)
    (hold : ∀ r, r < C.R0 → rowVal (C.T0.getD r []) y0 = 0) (hy0V : ∀ col, C.V ≤ col → y0 col = 0)
    (hall : ∀ c ∈ C.pend, tabC c = true → c.holds (proj C.M y0)) :
    ∃ y : Val, (∀ col, col < C.V → y col = y0 col) ∧ y 0 = 1 ∧ (∀ col, 1 ≤ col → 0 ≤ y col) ∧
      (∀ col, C.SL ≤ col → y col = 0) ∧ Sol (C.artOut unf).1 y := by
  have inv := C.fin_inv
  obtain ⟨y, y1, y2, y3, y4, y5⟩ := inv.complete y0 h0 hnn hold (fun c hc ht => hall c (by simpa using hc) ht)
  have hzero : ∀ j, C.SL ≤ j → y j = 0 := by
    intro j hj
    have hVj : C.V ≤ j := by unfold SL at hj; omega
    rw [y4 j hVj (Or.inr hj)]; exact hy0V j hVj
  refine ⟨y, y1, y2, y3, hzero, ?_⟩
  apply (C.asm_rows unf hU y (fun j hj _ => hzero j hj)).mpr
  intro r hr
  rw [inv.lenT] at hr
  by_cases h1 : r < C.R0
  · rw [inv.oldT r h1, C.old_congr r h1 y y0 y1]; exact hold r h1
  · exact y5 r (by rw [C.fin_k]; omega) hr

end GCtx

/-- **hand-over to the first phase** from a canonical feasible tableau and the first-phase cost row -/
theorem phase1_of_canonTB (s0 : LPState) (SL addArt nc : Nat) (T : List Row) (base : List Nat) (cost0 : Row)
    (hTB : CanonTB T base nc) (hc0 : IsPhase1Cost cost0 SL) (hc0len : cost0.length = nc)
    (hSL1 : 1 ≤ SL) (hpos : addArt > 0 → SL < nc - 1) (hzero : ¬ addArt > 0 → SL = nc - 1)
    (f1 : s0.tableau = T) (f2 : s0.base = base) (f3 : s0.working_cost = reexpressCost T base cost0)
    (f4 : s0.numCols = nc) :
    Phase1Start s0 (if addArt > 0 then SL else 0) (nc - 1) ∧
    artStart (if addArt > 0 then SL else 0) s0.numCols = SL := by
  have hnc2 : 2 ≤ nc := hTB.len2
  have hSLn : SL ≤ nc - 1 := by
    by_cases ha : addArt > 0
    · have := hpos ha; omega
    · rw [hzero ha]
  have hc0last : cost0.get (nc - 1) ≠ 0 := by
    unfold Row.get; rw [hc0, hc0len, if_pos rfl]; decide
  obtain ⟨r1, r2, r3, r4⟩ := reexpress_spec hTB cost0 hc0len hc0last
  have hcanon : Canon s0.tab := by
    unfold LPState.tab
    rw [f1, f2, f3, reexpressCost_eq]
    exact hTB.toCanon _ r1 r2 r3
  have hstart : artStart (if addArt > 0 then SL else 0) s0.numCols = SL := by
    unfold artStart
    rw [f4]
    by_cases ha : addArt > 0
    · rw [if_pos ha, if_pos (by omega)]
    · rw [if_neg ha, if_neg (by simp)]; exact (hzero ha).symm
  refine ⟨⟨hcanon, by rw [f3, reexpressCost_eq, r1, f4], by rw [f4], by rw [hstart]; exact hSL1,
    by rw [hstart, f4]; exact hSLn, fun hb => ?_, fun y hy hn => ?_⟩, hstart⟩
  · by_cases ha : addArt > 0
    · rw [if_pos ha]; exact ⟨hSL1, hpos ha⟩
    · rw [if_neg ha] at hb; exact absurd rfl hb
  · rw [hstart, f3, reexpressCost_eq, f4]
    rw [f1] at hy
    rw [f4] at hn
    rw [r4 y hy]
    have := phase1_cost_sem cost0 SL hc0 hSL1 (by rw [hc0len]; exact hnc2) y (by rw [hc0len]; exact hn)
    rw [hc0len] at this
    exact this

end PPLV.Solver.Pend
