import PPLV.Solver.PIPCoreProofsMain1
import PPLV.Solver.PIPCoreProofsNode2
/-!
# C07 stage 2 — end-to-end, part 2: every step of the main loop keeps the invariant

`StepFacts` lists the facts about the pivot's sign bookkeeping, the rational reading and the assembled tree
that are proved in the families `Pivot11..`, `Tree..`; `PIPCoreProofsMain6.lean` instantiates it.
-/
namespace PPLV.PIPCore

/-- the invariant with the premise of `sgn` phrased on the node's own constraints -/
structure Inv' (S : List Int → Prop) (n0 : Nat) (nd : SolNode) (ctx : Mat) : Prop where
  wf : WF nd
  lex : LexPos nd
  big : nd.big = none
  arts : ArtsWF n0 nd.arts
  nt_eq : n0 + nd.arts.length = nd.tab.nt
  n0_pos : 0 < n0
  ctx_len : ∀ r ∈ ctx, r.length = nd.tab.nt
  cons_len : RowsLe nd.cons nd.tab.nt
  pv : ∀ qpre, S qpre → ParamVec n0 qpre
  pvq : ∀ qpre, S qpre → ParamVec nd.tab.nt (extendArts nd.arts qpre)
  rel : ∀ qpre, S qpre → consHold nd.cons (extendArts nd.arts qpre) = true →
    CtxSat ctx (extendArts nd.arts qpre)
  sgn : ∀ qpre, S qpre → consHold nd.cons (extendArts nd.arts qpre) = true →
    SignAt nd (extendArts nd.arts qpre)
  int : ∀ qpre, S qpre → IntInv nd (extendArts nd.arts qpre)

structure StepFacts : Prop where
  pivot_signweak : ∀ {nd : SolNode}, WF nd → ∀ {pi pj : Nat}, pi < nd.tab.s.length → pj < nd.tab.ns →
    0 < mget nd.tab.s pi pj → ∀ {q : List Int}, ParamVec nd.tab.nt q → SignAt nd q → SignAt (pivot nd pi pj) q
  pivot_intinv : ∀ {nd : SolNode}, WF nd → ∀ {pi pj : Nat}, pi < nd.tab.s.length → pj < nd.tab.ns →
    0 < mget nd.tab.s pi pj → ∀ {q : List Int}, q.length = nd.tab.nt → IntInv nd q → IntInv (pivot nd pi pj) q
  normalize_intinv : ∀ {nd : SolNode}, WF nd → ∀ {q : List Int}, IntInv nd q →
    IntInv { nd with tab := nd.tab.normalize } q
  assemble_some : ∀ (aps : List ArtP) (cs : List Row) (tTest fTest : Row) (tN fN : Option CTree)
    (qpre q : List Int) (x : List Int), q = extendArts aps qpre → RowsLe cs q.length →
    tTest.length ≤ q.length → fTest.length ≤ q.length →
    ((0 ≤ dot fTest q) ↔ ¬ (0 ≤ dot tTest q)) →
    evalRes (assemble aps cs tTest fTest tN fN) qpre = some x →
    consHold cs q = true ∧ ((0 ≤ dot tTest q ∧ evalRes tN q = some x) ∨ (0 ≤ dot fTest q ∧ evalRes fN q = some x))

/-! ### small facts about `consHold`, `dot` and prefixes -/

theorem dot_prefix' : ∀ (r q e : List Int), r.length ≤ q.length → dot r (q ++ e) = dot r q
  | [], q, e, _ => by
    have h1 : ∀ l : List Int, dot [] l = 0 := fun l => by cases l <;> rfl
    rw [h1, h1]
  | a :: as, [], _, h => by simp at h
  | a :: as, x :: xs, e, h => by
    simp only [List.cons_append, dot]
    rw [dot_prefix' as xs e (by simpa using h)]

theorem consHold_prefix' (cons : List Row) (q e : List Int) (h : RowsLe cons q.length) :
    consHold cons (q ++ e) = consHold cons q := by
  unfold consHold
  induction cons with
  | nil => rfl
  | cons r rs ih =>
    simp only [List.all_cons]
    rw [dot_prefix' r q e (h r (List.mem_cons_self ..)),
      ih (fun x hx => h x (List.mem_cons_of_mem _ hx))]

theorem consHold_append' (a b : List Row) (q : List Int) :
    consHold (a ++ b) q = (consHold a q && consHold b q) := by
  unfold consHold; rw [List.all_append]

theorem ctxSat_append (ctx : Mat) (r : Row) (q : List Int) :
    CtxSat (ctx ++ [r]) q ↔ CtxSat ctx q ∧ 0 ≤ dot r q := by
  unfold CtxSat
  constructor
  · intro h
    exact ⟨fun x hx => h x (List.mem_append_left _ hx), h r (List.mem_append_right _ (List.mem_singleton_self _))⟩
  · rintro ⟨h1, h2⟩ x hx
    rcases List.mem_append.mp hx with hx | hx
    · exact h1 x hx
    · rw [List.mem_singleton.mp hx]; exact h2

/-! ### the sign analysis -/

theorem inv_sign {cc : Mat → Option Bool} (hcc : CCContract cc) {S : List Int → Prop} {n0 : Nat}
    {nd : SolNode} {ctx : Mat} (h : Inv' S n0 nd ctx) {sg : List RowSign} {fs : Firsts}
    (hs : signAnalysis cc nd ctx = some (sg, fs)) : Inv' S n0 { nd with sign := sg } ctx where
  wf := wf_congr (nd := nd) rfl rfl rfl rfl rfl (signAnalysis_length hs) h.wf
  lex := lexpos_of_same_tableau nd _ rfl rfl rfl h.lex
  big := h.big
  arts := h.arts
  nt_eq := h.nt_eq
  n0_pos := h.n0_pos
  ctx_len := h.ctx_len
  cons_len := h.cons_len
  pv := h.pv
  pvq := h.pvq
  rel := h.rel
  sgn := fun qpre hq hc =>
    signAt_analysis hcc h.wf h.big h.ctx_len hs (h.pvq qpre hq) (h.rel qpre hq hc) (h.sgn qpre hq hc)
  int := fun qpre hq => intInv_congr rfl rfl rfl rfl (h.int qpre hq)

/-! ### the pivot step -/

theorem inv_pivot (F : StepFacts) {S : List Int → Prop} {n0 : Nat} {nd : SolNode} {ctx : Mat}
    (h : Inv' S n0 nd ctx) {pi pj : Nat} (hpi : pi < nd.tab.s.length)
    (hf : findLexicoMinimalColumn nd.tab.s nd.mapping nd.basis (mrow nd.tab.s pi) 0 = some pj) :
    Inv' S n0 (pivot nd pi pj) ctx ∧
      ∀ qpre, S qpre → ∀ x, IsLexMin (pivot nd pi pj) (extendArts nd.arts qpre) x →
        IsLexMin nd (extendArts nd.arts qpre) x := by
  obtain ⟨hpj, hpos⟩ := flmc_positive nd pi pj h.wf hpi hf
  have hpos' : 0 < mget nd.tab.normalize.s pi pj := (normalize_sign h.wf pi pj).mpr hpos
  obtain ⟨f, hs⟩ := pivot_spec h.wf hpi hpj hpos'
  have hnt : (pivot nd pi pj).tab.nt = nd.tab.nt := by
    rw [hs.shape.2.2.2]; exact (normalize_shape nd.tab).2.2.2
  have hns : (pivot nd pi pj).tab.ns = nd.tab.ns := by
    rw [hs.shape.2.2.1]; exact (normalize_shape nd.tab).2.2.1
  refine ⟨{ wf := pivot_wf h.wf hpi hpj hpos'
            lex := solve_pivot_lexpos nd _ pi pj f h.wf h.lex hpi hf (normalize_wf h.wf) hs
            big := h.big
            arts := h.arts
            nt_eq := by rw [hnt]; exact h.nt_eq
            n0_pos := h.n0_pos
            ctx_len := by rw [hnt]; exact h.ctx_len
            cons_len := by rw [hnt]; exact h.cons_len
            pv := h.pv
            pvq := by rw [hnt]; exact h.pvq
            rel := h.rel
            sgn := fun qpre hq hc => F.pivot_signweak h.wf hpi hpj hpos (h.pvq qpre hq) (h.sgn qpre hq hc)
            int := fun qpre hq => F.pivot_intinv h.wf hpi hpj hpos (h.pvq qpre hq).1 (h.int qpre hq) }, ?_⟩
  intro qpre hq x hx
  exact isLexMin_of_feasible_iff hns
    (fun v => (pivot_feasible h.wf hpi hpj hpos' (h.pvq qpre hq).1 v).symm) hx

/-! ### the tautology step -/

theorem findINeg_spec (T : Tableau) (sg : List RowSign) :
    ∀ (is : List Nat) (st : Option (Nat × Int)) (i : Nat) (sc : Int),
      (∀ a b, st = some (a, b) → signGet sg a = .mixed) →
      findINeg T sg is st = some (i, sc) → signGet sg i = .mixed := by
  intro is
  induction is with
  | nil =>
    intro st i sc hst h
    simp only [findINeg] at h
    exact hst i sc h
  | cons a is ih =>
    intro st i sc hst h
    by_cases hm : signGet sg a ≠ .mixed
    · rw [findINeg, if_pos hm] at h
      exact ih st i sc hst h
    · rw [findINeg, if_neg hm] at h
      have hm' : signGet sg a = .mixed := by
        by_contra hc; exact hm hc
      have hnew : ∀ (s : Int) a' b, (some (a, s) : Option (Nat × Int)) = some (a', b) →
          signGet sg a' = .mixed := by
        intro s a' b hab
        injection hab with hab
        injection hab with ha _
        subst ha
        exact hm'
      split at h
      · exact ih st i sc hst h
      · dsimp only at h
        split at h
        · exact ih _ i sc (hnew _) h
        · split at h
          · exact ih _ i sc (hnew _) h
          · exact ih _ i sc hst h

theorem findBestI_spec (T : Tableau) (sg : List RowSign) :
    ∀ (is : List Nat) (st : Option (Nat × Int)) (i : Nat) (sc : Int),
      (∀ a b, st = some (a, b) → signGet sg a = .mixed) →
      findBestI T sg is st = some (i, sc) → signGet sg i = .mixed := by
  intro is
  induction is with
  | nil =>
    intro st i sc hst h
    simp only [findBestI] at h
    exact hst i sc h
  | cons a is ih =>
    intro st i sc hst h
    by_cases hm : signGet sg a ≠ .mixed
    · rw [findBestI, if_pos hm] at h
      exact ih st i sc hst h
    · rw [findBestI, if_neg hm] at h
      have hm' : signGet sg a = .mixed := by
        by_contra hc; exact hm hc
      have hnew : ∀ (s : Int) a' b, (some (a, s) : Option (Nat × Int)) = some (a', b) →
          signGet sg a' = .mixed := by
        intro s a' b hab
        injection hab with hab
        injection hab with ha _
        subst ha
        exact hm'
      dsimp only at h
      split at h
      · exact ih _ i sc (hnew _) h
      · split at h
        · exact ih _ i sc (hnew _) h
        · exact ih _ i sc hst h

theorem signGet_mixed_lt {sg : List RowSign} {i : Nat} (h : signGet sg i = .mixed) : i < sg.length :=
  signGet_lt_of_ne_unknown (sg := sg) (i := i) (by rw [h]; decide)

end PPLV.PIPCore
