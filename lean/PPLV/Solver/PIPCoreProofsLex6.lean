import PPLV.Solver.PIPCoreProofsLex5
import Mathlib.Tactic.Linarith
import Mathlib.Tactic.Ring
/-!
# C07 stage 2 — the lexicographic invariant, part 6: `generate_cut` keeps the node well-formed, so the
invariant `WF ∧ LexPos` goes through the cut generation of every cutting strategy (`generateCuts`).
-/
namespace PPLV.PIPCore

/-! ### the shape of the node after a cut -/

theorem Lex.cols_append (m : Mat) (r : Row) (n : Nat) (hm : ∀ x ∈ m, x.length = n)
    (hr : r.length = n) : ∀ x ∈ m ++ [r], x.length = n := by
  intro x hx
  rcases List.mem_append.mp hx with h | h
  · exact hm x h
  · simp only [List.mem_singleton] at h; rw [h]; exact hr

theorem Lex.addZeroColumn_cols (m : Mat) (n : Nat) (hm : ∀ x ∈ m, x.length = n) :
    ∀ x ∈ addZeroColumn m, x.length = n + 1 := by
  intro x hx
  unfold addZeroColumn at hx
  obtain ⟨y, hy, rfl⟩ := List.mem_map.mp hx
  rw [List.length_append, hm y hy]; rfl

theorem Lex.rset_length (r : Row) (j : Nat) (v : Int) : (rset r j v).length = r.length := by
  unfold rset; exact List.length_set

theorem Lex.mrow_length (m : Mat) (n i : Nat) (hm : ∀ x ∈ m, x.length = n) (hi : i < m.length) :
    (mrow m i).length = n := hm _ (Lex.mrow_mem m i hi)

/-- everything `generate_cut` does to the members that matter for `WF` and `LexPos` -/
theorem Lex.gc_char (nd : SolNode) (ctx : Mat) (index : Nat) (hwf : WF nd)
    (hi : index < nd.tab.t.length) :
    ∃ (tNew : Mat) (ntNew : Nat) (artsNew : List ArtP) (ctxNew : Mat),
      generateCut nd ctx index =
        ({ nd with
           tab := { s := nd.tab.s ++ [(mrow nd.tab.s index).map (fun a => posRem a nd.tab.den)],
                    t := tNew, den := nd.tab.den, ns := nd.tab.ns, nt := ntNew }
           varRow := nd.varRow ++ [nd.tab.t.length + nd.tab.ns]
           basis := nd.basis ++ [false]
           mapping := nd.mapping ++ [nd.tab.t.length]
           sign := nd.sign ++ [.negative]
           arts := artsNew }, ctxNew)
      ∧ tNew.length = nd.tab.t.length + 1 ∧ ∀ r ∈ tNew, r.length = ntNew := by
  have hrow : (mrow nd.tab.t index).length = nd.tab.nt := Lex.mrow_length _ _ _ hwf.t_cols hi
  unfold generateCut
  dsimp only
  split
  · split
    · refine ⟨_, _, _, _, rfl, by simp, ?_⟩
      apply Lex.cols_append _ _ _ hwf.t_cols
      rw [Lex.rset_length, List.length_map, hrow]
    · refine ⟨_, _, _, _, rfl, by simp [addZeroColumn], ?_⟩
      apply Lex.cols_append _ _ _ (Lex.addZeroColumn_cols _ _ hwf.t_cols)
      rw [Lex.rset_length, List.length_map]
      exact Lex.mrow_length _ _ _ (Lex.addZeroColumn_cols _ _ hwf.t_cols)
        (by simp [addZeroColumn]; exact hi)
  · refine ⟨_, _, _, _, rfl, by simp, ?_⟩
    apply Lex.cols_append _ _ _ hwf.t_cols
    rw [List.length_map, hrow]

theorem Lex.natGet_append_at (l : List Nat) (x k : Nat) (h : k = l.length) :
    natGet (l ++ [x]) k = x := by rw [h]; exact Lex.natGet_append_len l x

theorem Lex.boolGet_append_at (l : List Bool) (x : Bool) (k : Nat) (h : k = l.length) :
    boolGet (l ++ [x]) k = x := by rw [h]; exact Lex.boolGet_append_len l x

/-- **`generateCut_wf`**: the cut of a row of the tableau keeps the node well-formed -/
theorem generateCut_wf (nd : SolNode) (ctx : Mat) (index : Nat) :
    WF nd → index < nd.tab.s.length → WF (generateCut nd ctx index).1 := by
  intro hwf hi
  have hit : index < nd.tab.t.length := by rw [← hwf.rows_eq]; exact hi
  obtain ⟨tNew, ntNew, artsNew, ctxNew, he, hl, hc⟩ := Lex.gc_char nd ctx index hwf hit
  rw [he]
  have hre := hwf.rows_eq
  have hvr := hwf.vr_len
  have hml := hwf.map_len
  have hbl := hwf.basis_len
  refine ⟨?_, ?_, hc, hwf.den_pos, ?_, hwf.vc_len, ?_, ?_, ?_, ?_, ?_, ?_⟩ <;> dsimp only
  · rw [List.length_append, List.length_singleton, hl, hre]
  · apply Lex.cols_append _ _ _ hwf.s_cols
    rw [List.length_map]; exact Lex.mrow_length _ _ _ hwf.s_cols hi
  · simp only [List.length_append, List.length_singleton]; omega
  · have := hwf.sign_len
    simp only [List.length_append, List.length_singleton]; omega
  · simp only [List.length_append, List.length_singleton]; omega
  · simp only [List.length_append, List.length_singleton]; omega
  · -- vr_ok
    intro i hi'
    rw [List.length_append, List.length_singleton] at hi'
    rw [List.length_append, List.length_singleton]
    by_cases hlt : i < nd.tab.s.length
    · obtain ⟨a, b, c⟩ := hwf.vr_ok i hlt
      rw [Lex.natGet_append_lt _ _ _ (by omega)]
      refine ⟨by omega, ?_, ?_⟩
      · rw [Lex.boolGet_append_lt _ _ _ (by omega)]; exact b
      · rw [Lex.natGet_append_lt _ _ _ a]; exact c
    · have hie : i = nd.tab.s.length := by omega
      rw [Lex.natGet_append_at _ _ _ (by omega)]
      refine ⟨by omega, ?_, ?_⟩
      · exact Lex.boolGet_append_at _ _ _ (by omega)
      · rw [Lex.natGet_append_at _ _ _ (by omega)]; omega
  · -- vc_ok
    intro j hj
    obtain ⟨a, b, c⟩ := hwf.vc_ok j hj
    rw [List.length_append, List.length_singleton]
    refine ⟨by omega, ?_, ?_⟩
    · rw [Lex.boolGet_append_lt _ _ _ (by omega)]; exact b
    · rw [Lex.natGet_append_lt _ _ _ a]; exact c
  · -- map_ok
    intro k hk
    rw [List.length_append, List.length_singleton] at hk
    rw [List.length_append, List.length_singleton]
    by_cases hlt : k < nd.mapping.length
    · obtain ⟨m1, m2⟩ := hwf.map_ok k hlt
      rw [Lex.boolGet_append_lt _ _ _ (by omega), Lex.natGet_append_lt _ _ _ hlt]
      refine ⟨m1, fun hb => ?_⟩
      obtain ⟨a, b⟩ := m2 hb
      rw [Lex.natGet_append_lt _ _ _ (by omega)]
      exact ⟨by omega, b⟩
    · have hke : k = nd.mapping.length := by omega
      rw [Lex.boolGet_append_at _ _ _ (by omega), Lex.natGet_append_at _ _ _ hke]
      refine ⟨(fun h => by cases h), fun _ => ⟨by omega, ?_⟩⟩
      rw [Lex.natGet_append_at _ _ _ (by omega)]; omega

theorem Lex.gc_s_length (nd : SolNode) (ctx : Mat) (index : Nat) :
    (generateCut nd ctx index).1.tab.s.length = nd.tab.s.length + 1 := by
  rw [Lex.gc_s, List.length_append, List.length_singleton]

/-! ### the cutting strategies -/

/-- the invariant `WF ∧ LexPos` through a sequence of cuts on rows of the ORIGINAL tableau -/
theorem Lex.cuts_fold (n : Nat) : ∀ (is : List Nat) (nd : SolNode) (ctx : Mat),
    WF nd → LexPos nd → n ≤ nd.tab.s.length → (∀ i ∈ is, i < n) →
    WF (is.foldl (fun (st : SolNode × Mat) i => generateCut st.1 st.2 i) (nd, ctx)).1
    ∧ LexPos (is.foldl (fun (st : SolNode × Mat) i => generateCut st.1 st.2 i) (nd, ctx)).1
  | [], _, _, hwf, hlp, _, _ => ⟨hwf, hlp⟩
  | i :: is, nd, ctx, hwf, hlp, hn, his => by
    have hi : i < nd.tab.s.length := lt_of_lt_of_le (his i (by simp)) hn
    rw [List.foldl_cons]
    exact Lex.cuts_fold n is (generateCut nd ctx i).1 (generateCut nd ctx i).2
      (generateCut_wf nd ctx i hwf hi) (generateCut_lexpos nd ctx i hwf hlp)
      (by rw [Lex.gc_s_length]; omega) (fun i' h' => his i' (by simp [h']))

/-- generic `foldl` invariant -/
theorem Lex.foldl_inv {α β : Type} (P : α → Prop) (f : α → β → α) :
    ∀ (l : List β) (a : α), P a → (∀ a b, b ∈ l → P a → P (f a b)) → P (l.foldl f a)
  | [], _, h, _ => h
  | b :: l, a, h, hf =>
    Lex.foldl_inv P f l (f a b) (hf a b (by simp) h) (fun a' b' hb' => hf a' b' (by simp [hb']))

theorem Lex.ite_opt {α : Type} (c : Prop) [Decidable c] (a : α) (st : Option α) (P : α → Prop)
    (ha : P a) (hst : ∀ x ∈ st, P x) : ∀ x ∈ (if c then some a else st), P x := by
  intro x hx
  by_cases h : c
  · rw [if_pos h] at hx
    simp only [Option.mem_def, Option.some.injEq] at hx
    rw [← hx]; exact ha
  · rw [if_neg h] at hx; exact hst x hx

theorem Lex.ite_list_nil {α : Type} (c : Prop) [Decidable c] (l : List α) (P : α → Prop)
    (hl : ∀ x ∈ l, P x) : ∀ x ∈ (if c then [] else l), P x := by
  intro x hx
  by_cases h : c
  · rw [if_pos h] at hx; cases hx
  · rw [if_neg h] at hx; exact hl x hx

theorem Lex.ite_list_app {α : Type} (c : Prop) [Decidable c] (l : List α) (a : α) (P : α → Prop)
    (hl : ∀ x ∈ l, P x) (ha : P a) : ∀ x ∈ (if c then l ++ [a] else l), P x := by
  intro x hx
  by_cases h : c
  · rw [if_pos h] at hx
    rcases List.mem_append.mp hx with hx | hx
    · exact hl x hx
    · simp only [List.mem_singleton] at hx; rw [hx]; exact ha
  · rw [if_neg h] at hx; exact hl x hx

/-- the row of a non-basic variable is a row of the tableau -/
theorem Lex.row_of_var (nd : SolNode) (hwf : WF nd) (k : Nat) (hk : k < nd.tab.ns)
    (hb : boolGet nd.basis k = false) : natGet nd.mapping k < nd.tab.s.length :=
  ((hwf.map_ok k (by rw [hwf.map_len]; omega)).2 hb).1

theorem Lex.cutRowFirst_lt (nd : SolNode) (hwf : WF nd) (i : Nat) (h : cutRowFirst nd = some i) :
    i < nd.tab.s.length := by
  unfold cutRowFirst at h
  have hinv : ∀ x ∈ ((List.range nd.tab.ns).foldl (fun (st : Option (Nat × Nat)) k =>
      if boolGet nd.basis k then st else
      let i := natGet nd.mapping k
      let pc := pcountOf (mrow nd.tab.t i) nd.tab.den
      let better : Bool := match st with | none => true | some (_, b) => decide (pc < b)
      if pc > 0 ∧ better then some (i, pc) else st) none), x.1 < nd.tab.s.length := by
    apply Lex.foldl_inv (fun st : Option (Nat × Nat) => ∀ x ∈ st, x.1 < nd.tab.s.length)
    · intro x hx; cases hx
    · intro st k hk hst
      dsimp only
      cases hb : boolGet nd.basis k with
      | true => simpa using hst
      | false =>
        simp only [Bool.false_eq_true, if_false]
        exact Lex.ite_opt _ _ _ (fun x : Nat × Nat => x.1 < nd.tab.s.length)
          (Lex.row_of_var nd hwf k (List.mem_range.mp hk) hb) hst
  obtain ⟨x, hx, rfl⟩ := Option.map_eq_some_iff.mp h
  exact hinv x hx

theorem Lex.cutRowsDeepest_lt (nd : SolNode) (hwf : WF nd) :
    (∀ i, (cutRowsDeepest nd).1 = some i → i < nd.tab.s.length)
    ∧ ∀ i ∈ (cutRowsDeepest nd).2, i < nd.tab.s.length := by
  unfold cutRowsDeepest
  dsimp only
  have hinv := Lex.foldl_inv
    (fun st : Option (Nat × Nat × Int) × List Nat =>
      (∀ x ∈ st.1, x.1 < nd.tab.s.length) ∧ ∀ i ∈ st.2, i < nd.tab.s.length)
    (fun (st : Option (Nat × Nat × Int) × List Nat) k =>
      if boolGet nd.basis k then st else
      let (best, all) := st
      let i := natGet nd.mapping k
      let ti := mrow nd.tab.t i
      let pc := pcountOf ti nd.tab.den
      let score : Int := (ti.map fun a => let m := posRem a nd.tab.den;
        if m ≠ 0 then nd.tab.den - m else 0).foldl (· + ·) 0
      let sScore : Int := ((mrow nd.tab.s i).map fun a =>
        if a = 0 then 0 else nd.tab.den - posRem a nd.tab.den).foldl (· + ·) 0
      let score := score * sScore
      let take : Bool := pc ≠ 0 && (match best with
        | none => true
        | some (_, bpc, bsc) => pc < bpc || (pc == bpc && score > bsc))
      let lt : Bool := match best with | none => true | some (_, bpc, _) => pc < bpc
      let all := if take && lt then [] else all
      let best := if take then some (i, pc, score) else best
      let all := if pc > 0 then all ++ [i] else all
      (best, all))
    (List.range nd.tab.ns) (none, [])
    ⟨(fun x hx => by cases hx), (fun i hi => by cases hi)⟩
    (by
      intro st k hk hst
      obtain ⟨best, all⟩ := st
      obtain ⟨h1, h2⟩ := hst
      dsimp only at h1 h2 ⊢
      cases hb : boolGet nd.basis k with
      | true => exact ⟨h1, h2⟩
      | false =>
        have hrow := Lex.row_of_var nd hwf k (List.mem_range.mp hk) hb
        simp only [Bool.false_eq_true, if_false]
        constructor
        · exact Lex.ite_opt _ _ _ (fun x : Nat × Nat × Int => x.1 < nd.tab.s.length) hrow h1
        · exact Lex.ite_list_app _ _ _ (fun i : Nat => i < nd.tab.s.length)
            (Lex.ite_list_nil _ _ _ h2) hrow)
  constructor
  · intro i hi
    obtain ⟨x, hx, rfl⟩ := Option.map_eq_some_iff.mp hi
    exact hinv.1 x hx
  · exact hinv.2

/-- **`generateCuts_inv`**: every cutting strategy keeps the node well-formed with lexico-non-negative
    columns (all the cuts are appended at the end of the variable order) -/
theorem generateCuts_inv (ctl : Ctl) (nd : SolNode) (ctx : Mat) :
    WF nd → LexPos nd → WF (generateCuts ctl nd ctx).1 ∧ LexPos (generateCuts ctl nd ctx).1 := by
  intro hwf hlp
  unfold generateCuts
  split
  · split
    · rename_i i hi
      exact ⟨generateCut_wf nd ctx i hwf (Lex.cutRowFirst_lt nd hwf i hi),
        generateCut_lexpos nd ctx i hwf hlp⟩
    · exact ⟨hwf, hlp⟩
  · obtain ⟨hbest, hall⟩ := Lex.cutRowsDeepest_lt nd hwf
    dsimp only
    split
    · split
      · rename_i i hi
        exact ⟨generateCut_wf nd ctx i hwf (hbest i hi), generateCut_lexpos nd ctx i hwf hlp⟩
      · exact ⟨hwf, hlp⟩
    · exact Lex.cuts_fold nd.tab.s.length _ nd ctx hwf hlp (le_refl _)
        (fun i hi => hall i (List.mem_reverse.mp hi))

theorem generateCuts_lexpos (ctl : Ctl) (nd : SolNode) (ctx : Mat) :
    WF nd → LexPos nd → LexPos (generateCuts ctl nd ctx).1 :=
  fun hwf hlp => (generateCuts_inv ctl nd ctx hwf hlp).2

/-! ### the other branches of the main loop do not touch the tableau -/

/-- the cached signs, the constraints and the artificial parameters do not enter `LexPos` -/
theorem lexpos_of_same_tableau (nd nd' : SolNode) :
    nd'.tab = nd.tab → nd'.basis = nd.basis → nd'.mapping = nd.mapping → LexPos nd → LexPos nd' := by
  intro h1 h2 h3 hlp j hj
  rw [h1] at hj
  have : fullRows nd' = fullRows nd := by
    unfold fullRows
    rw [h3]
    apply List.map_congr_left
    intro k _
    unfold fullRow
    rw [h1, h2, h3]
  rw [this]
  exact hlp j hj

/-! ### non-vacuity -/

example : WF Lex.exNodeD ∧ 0 < Lex.exNodeD.tab.s.length ∧ WF (generateCut Lex.exNodeD [] 0).1 :=
  ⟨Lex.exNodeD_wf, by decide, generateCut_wf Lex.exNodeD [] 0 Lex.exNodeD_wf (by decide)⟩

/-- two non-integral rows, strategy ALL: two cuts -/
def Lex.exNodeF : SolNode :=
  { tab := { s := [[1, 3], [3, 1]], t := [[1], [1]], den := 2, ns := 2, nt := 1 }
    basis := [false, false, true, true], mapping := [0, 1, 0, 1], varRow := [0, 1], varColumn := [2, 3]
    sign := [.positive, .positive], big := none, arts := [], cons := [] }

theorem Lex.exNodeF_wf : WF Lex.exNodeF :=
  ⟨by decide, by decide, by decide, by decide, by decide, by decide, by decide, by decide, by decide,
   by decide, by decide, by decide⟩

example : WF Lex.exNodeF ∧ LexPos Lex.exNodeF
    ∧ (generateCuts { cut := 2 } Lex.exNodeF []).1.tab.s = [[1, 3], [3, 1], [1, 1], [1, 1]]
    ∧ (generateCuts { cut := 0 } Lex.exNodeF []).1.tab.s = [[1, 3], [3, 1], [1, 1]]
    ∧ WF (generateCuts { cut := 2 } Lex.exNodeF []).1
    ∧ LexPos (generateCuts { cut := 2 } Lex.exNodeF []).1 :=
  ⟨Lex.exNodeF_wf, by decide, by decide, by decide,
   (generateCuts_inv _ _ _ Lex.exNodeF_wf (by decide)).1,
   (generateCuts_inv _ _ _ Lex.exNodeF_wf (by decide)).2⟩

end PPLV.PIPCore
