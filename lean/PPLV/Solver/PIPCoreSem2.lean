import PPLV.Solver.PIPCoreSem
/-!
# C07 stage 2 — the meaning of the tree under construction (definitions only, no Mathlib)

`CTree.evalC` evaluates a `CTree` at a parameter vector `q = 1 :: params` over the parameter COLUMNS:
the artificial parameters of a node are appended in declaration order (floor of the quotient), then the
constraint rows of the node are tested; a row shorter than the vector ignores the later columns
(`dot` stops at the shorter list).  `none` is bottom.
-/
namespace PPLV.PIPCore

/-- append the values of the artificial parameters, in declaration order -/
def extendArts : List ArtP → List Int → List Int
  | [], q => q
  | a :: as, q => extendArts as (q ++ [Int.fdiv (dot a.num q) a.den])

def consHold (cons : List Row) (q : List Int) : Bool := cons.all fun r => decide (0 ≤ dot r q)

/-- the values of the problem variables in the basic solution (`update_solution`): 0 for a column variable,
    `t[mapping k]·q / den` otherwise -/
def SolNode.point (nd : SolNode) (q : List Int) : List Int :=
  (List.range nd.tab.ns).map fun k =>
    if boolGet nd.basis k then 0 else dot (mrow nd.tab.t (natGet nd.mapping k)) q / nd.tab.den

def CTree.evalC : CTree → List Int → Option (List Int)
  | .sol nd, q =>
    let q' := extendArts nd.arts q
    if consHold nd.cons q' then some (nd.point q') else none
  | .dec arts cons t f, q =>
    let q' := extendArts arts q
    if consHold cons q' then t.evalC q'
    else match f with
      | none => none
      | some f => f.evalC q'

def evalRes : Option CTree → List Int → Option (List Int)
  | none, _ => none
  | some t, q => t.evalC q

/-- `x` lists the values of the problem variables of a feasible valuation that is lexicographically
    minimal (on the problem variables) among the feasible valuations -/
def IsLexMin (nd : SolNode) (q : List Int) (x : List Int) : Prop :=
  ∃ v, Feasible nd v q ∧ x = (List.range nd.tab.ns).map v ∧
    ∀ w, Feasible nd w q → lexLeFrom v w 0 nd.tab.ns

def Infeasible (nd : SolNode) (q : List Int) : Prop := ¬ ∃ v, Feasible nd v q

/-- all entries of all rows have at most `n` columns -/
def RowsLe (m : Mat) (n : Nat) : Prop := ∀ r ∈ m, r.length ≤ n

end PPLV.PIPCore
