import PPLV.Solver.PendingProofsTrivial

/-!
# C06 stage 3 — `lp_fresh_correct`: all branches
-/
namespace PPLV.Solver.Pend
open PPLV.Lin PPLV.Solver PPLV.Solver.Tab

theorem ppcFinish_status (s' : LPState) (b e : Nat) (ok : Bool) (t : Tab) :
    (ppcFinish s' b e ok t).status = .UNSATISFIABLE ∨ (ppcFinish s' b e ok t).status = .SATISFIABLE := by
  by_cases h : ok = false ∨ t.cost.get 0 ≠ 0
  · exact Or.inl (ppcFinish_unsat s' b e ok t h)
  · have hok : ok = true := by cases ok <;> simp_all
    have h0 : t.cost.get 0 = 0 := by
      by_contra hne; exact h (Or.inr hne)
    right
    rw [hok, ppcFinish_sat s' b e t h0]

/-- the claims about the answer of the LP machinery, for the constraints `cs` and the problem `P` -/
def LPClaims (cs : List ICon) (P : Problem) (s2 : LPState) : Prop :=
  (s2.status = .OPTIMIZED ∨ s2.status = .UNBOUNDED) ∧
  0 < s2.last_generator.den ∧ csSem cs s2.last_generator.val ∧
  (s2.status = .OPTIMIZED →
    ∀ x, csSem cs x → ¬ Better P (P.objVal x) (P.objVal s2.last_generator.val)) ∧
  (s2.status = .UNBOUNDED → ∀ M : Rat, ∃ x, csSem cs x ∧ Better P (P.objVal x) M)

/-- the branch without tableau rows: `process_pending_constraints` itself answers OPTIMIZED / UNBOUNDED, rightly -/
theorem ppc_fresh_trivial (fc : Chooser) (fuel : Nat) (s sR : LPState) (hF : Fresh s)
    (hobj : s.obj.coeffs.length ≤ s.external_space_dim)
    (h : processPendingConstraints fc fuel s = some sR)
    (hst : sR.status = .OPTIMIZED ∨ sR.status = .UNBOUNDED) : LPClaims s.input_cs s.problem sR := by
  unfold processPendingConstraints at h
  cases hs : ppcSetup s with
  | phase1 s' b e =>
    rw [hs] at h
    simp only at h
    cases hrun : computeSimplexWith (chooserOf fc s'.pricing) fuel s'.tab with
    | none => rw [hrun] at h; cases h
    | some res =>
      obtain ⟨ok, t⟩ := res
      rw [hrun] at h
      simp only [Option.some.injEq] at h
      subst h
      exfalso
      rcases ppcFinish_status s' b e ok t with h1 | h1 <;> rcases hst with h2 | h2 <;> rw [h1] at h2 <;> cases h2
  | done sd =>
    rw [hs] at h
    simp only [Option.some.injEq] at h
    subst h
    cases hp : parseConstraints s with
    | none =>
      exfalso
      have : ppcSetup s = .done { s with status := .UNSATISFIABLE } := by
        unfold ppcSetup; rw [ppcRecompute_fresh hF]; simp only [hp]
      rw [this] at hs
      simp only [Setup.done.injEq] at hs
      subst hs
      rcases hst with h2 | h2 <;> cases h2
    | some p =>
      obtain ⟨C, c1, c2, c3, H1, H2, hnc, s0, hs0, f1, f2, f3, f4, f5, f6, f7, f8, f9, -⟩ := fresh_ctx s hF p hp
      rw [hs0] at hs
      unfold ppcTrivial at hs
      have h0 : (s0.external_space_dim == 0) = false := by rw [f6]; have := hF.npos; simp; omega
      rw [h0] at hs
      simp only [Bool.false_eq_true, if_false] at hs
      split at hs
      swap
      · cases hs
      rename_i hlen
      have hnil : s0.tableau = [] := by
        cases ht : s0.tableau with
        | nil => rfl
        | cons a l => rw [ht] at hlen; simp at hlen
      have hT : C.T2 (zeros C.numCols) C.fin.base = [] := by
        have : C.artOut.1 = [] := by rw [← f1]; exact hnil
        exact this
      have hobjC : s.obj.coeffs.length ≤ C.n := by rw [c2]; exact hobj
      obtain ⟨t1, t2, t3⟩ := C.trivial_branch H1 H2 hT s.obj s.maximize hobjC
      rw [c1] at t1 t2 t3
      have hsgn : (s.obj.coeffs.map fun a => if s.maximize then a else -a) = sgnObj s := rfl
      rw [hsgn] at t2 t3
      -- the origin
      have hval : ∀ n : Nat, (⟨zeros n, 1⟩ : Pt).val = Val.zero := by
        intro n; funext i; unfold Pt.val; simp only; rw [zeros_getD]; simp [Val.zero]
      rw [f7, f5, f8, f6] at hs
      by_cases hunb : isUnboundedObjFunction s.obj C.M s.maximize = true
      · rw [if_pos hunb] at hs
        simp only [Setup.done.injEq] at hs
        subst hs
        refine ⟨Or.inr rfl, Int.one_pos, by simp only; rw [hval]; exact t1, (fun h => by cases h), fun _ M => ?_⟩
        obtain ⟨x, x1, x2⟩ := t3 hunb (if s.maximize then M - (s.obj.k : Rat) else (s.obj.k : Rat) - M)
        exact ⟨x, x1, better_of_large s x M x2⟩
      · rw [if_neg hunb] at hs
        simp only [Setup.done.injEq] at hs
        subst hs
        have hunb' : isUnboundedObjFunction s.obj C.M s.maximize = false := by simpa using hunb
        refine ⟨Or.inl rfl, Int.one_pos, by simp only; rw [hval]; exact t1, fun _ x hx => ?_, fun h => by cases h⟩
        simp only
        rw [hval, not_better_iff, dot_zero]
        exact t2 hunb' x hx

/-- **END TO END: the LP answers of the model on a problem never solved before are right.** -/
theorem lp_fresh_correct (fc : Chooser) (hfc : ChooserOK fc) (f1 f2 : Nat) (s s1 : LPState) (r : Bool)
    (hU : Untouched s) (hlg : s.last_generator = ⟨[], 1⟩) (hn : 0 < s.external_space_dim)
    (hl : ∀ c ∈ s.input_cs, c.coeffs.length ≤ s.external_space_dim)
    (hobj : s.obj.coeffs.length ≤ s.external_space_dim)
    (h1 : isLpSatisfiable fc f1 s = some (s1, r)) :
    (r = false → ∀ x, ¬ csSem s.input_cs x) ∧
    (r = true → (∃ x, csSem s.input_cs x) ∧
      ∀ s2, secondPhase fc f2 s1 = some s2 → LPClaims s.input_cs s.problem s2) := by
  rw [isLpSatisfiable_untouched fc f1 s hU] at h1
  cases hp : processPendingConstraints fc f1 (firstCall s) with
  | none => rw [hp] at h1; cases h1
  | some sR =>
    rw [hp] at h1
    simp only [Option.some.injEq, Prod.mk.injEq] at h1
    obtain ⟨rfl, rfl⟩ := h1
    have hF := firstCall_fresh s hU hn hl
    rcases ppc_fresh fc hfc f1 (firstCall s) sR hF hlg hp with ⟨a1, a2⟩ | ⟨a1, a2, a3⟩ | ⟨a1, a2, a3, a4, -, a6⟩
    · refine ⟨fun _ => a2, fun hr => ?_⟩
      rw [a1] at hr; cases hr
    · refine ⟨fun hr => ?_, fun _ => ⟨a3, fun s2 h2 => ?_⟩⟩
      · rcases a1 with h | h <;> rw [h] at hr <;> cases hr
      · have hcl := ppc_fresh_trivial fc f1 (firstCall s) sR hF hobj hp a1
        -- second_phase returns at once
        have : s2 = { sR with first_pending := sR.input_cs.length, internal_space_dim := sR.external_space_dim } := by
          unfold secondPhase at h2
          have hc : (sR.status == Status.UNBOUNDED || sR.status == Status.OPTIMIZED) = true := by
            rcases a1 with h | h <;> rw [h] <;> rfl
          simp only [hc, if_true, Option.some.injEq] at h2
          exact h2.symm
        rw [this]
        exact hcl
    · refine ⟨fun hr => ?_, fun _ => ⟨ready_exists _ _ _ a2, fun s2 h2 => ?_⟩⟩
      · rw [a1] at hr; cases hr
      · exact secondPhase_fresh_witness fc hfc f2 s
          { sR with first_pending := sR.input_cs.length, internal_space_dim := sR.external_space_dim } s2 a1
          ⟨a2.tb, a2.map, a2.sound, a2.complete⟩ a3 a4 a6 hn hl hobj h2

end PPLV.Solver.Pend
