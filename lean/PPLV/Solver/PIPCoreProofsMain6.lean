import PPLV.Solver.PIPCoreProofsMain5
import PPLV.Solver.PIPCoreProofsPivot14
import PPLV.Solver.PIPCoreProofsTree2
import PPLV.Solver.PIPCoreProofsTree3
/-!
# C07 stage 2 — end-to-end, part 6: from a fresh root to the public tree semantics
-/
namespace PPLV.PIPCore

/-- the step facts (families Pivot, Tree) -/
theorem stepFacts : StepFacts where
  pivot_signweak := fun h _ _ hpi hpj hspp _ hq hs => pivot_signweak h hpi hpj hspp hq hs
  pivot_intinv := fun h _ _ hpi hpj hspp _ hq hI => pivot_intinv h hpi hpj hspp hq hI
  normalize_intinv := fun h _ hI => normalize_intinv h hI
  assemble_some := fun aps cs tTest fTest tN fN _ _ _ hq hcs ht hf hpart h =>
    assemble_some (aps := aps) (cs := cs) (tTest := tTest) (fTest := fTest) (tN := tN) (fN := fN)
      hq hcs ht hf hpart h

/-- a fresh root as `PIP_Solution_Node::update_tableau` builds it for a new problem (denominator 1, the
    problem variables are the column variables, the cached signs are `row_sign` of the rows or UNKNOWN, no
    big parameter), with the initial context -/
structure RootOK (root : SolNode) (ctx0 : Mat) : Prop where
  wf : WF root
  den_one : root.tab.den = 1
  fresh : ∀ k, k < root.tab.ns → boolGet root.basis k = true ∧ natGet root.mapping k = k
  big : root.big = none
  arts : root.arts = []
  cons : root.cons = []
  nt_pos : 0 < root.tab.nt
  ctx_len : ∀ r ∈ ctx0, r.length = root.tab.nt
  sign : ∀ k, signGet root.sign k = .unknown ∨ signGet root.sign k = rowSign (mrow root.tab.t k) none

theorem rootOK_inv {root : SolNode} {ctx0 : Mat} (h : RootOK root ctx0) :
    Inv' (fun q => ParamVec root.tab.nt q ∧ CtxSat ctx0 q) root.tab.nt root ctx0 where
  wf := h.wf
  lex := init_lexpos root h.wf h.fresh
  big := h.big
  arts := by rw [h.arts]; intro j hj; simp at hj
  nt_eq := by rw [h.arts]; simp
  n0_pos := h.nt_pos
  ctx_len := h.ctx_len
  cons_len := by rw [h.cons]; intro r hr; simp at hr
  pv := fun q hq => hq.1
  pvq := fun q hq => by rw [h.arts]; exact hq.1
  rel := fun q hq _ => by rw [h.arts]; exact hq.2
  sgn := fun q hq _ => by rw [h.arts]; exact signAt_root h.sign h.wf hq.1
  int := fun q _ => root_intinv h.wf h.den_one h.fresh

/-- **point soundness of the solver as it was before the repair of KF-C07-12**, over the parameter columns -/
theorem solveAsWritten_sound {cc : Mat → Option Bool} (hcc : CCContract cc) (ctl : Ctl)
    {cfc : Bool} {fuel : Nat} {root : SolNode} {ctx0 : Mat} (h : RootOK root ctx0) {r : Option CTree}
    (hs : solveAsWritten cc ctl cfc fuel root ctx0 = .done r) {q : List Int} (hq : ParamVec root.tab.nt q)
    (hsat : CtxSat ctx0 q) {x : List Int} (hx : evalRes r q = some x) : IsLexMin root q x := by
  have := solveGoAsWritten_sound hcc ctl stepFacts cfc fuel true root ctx0 r _ _ hs (fun _ => rootOK_inv h) q ⟨hq, hsat⟩ x hx
  rw [h.arts] at this
  exact this

/-- … and through the public tree semantics `Tree.eval` -/
theorem solveAsWritten_sound_eval {cc : Mat → Option Bool} (hcc : CCContract cc) (ctl : Ctl)
    {cfc : Bool} {fuel : Nat} {root : SolNode} {ctx0 : Mat} (h : RootOK root ctx0) {r : Option CTree}
    (hs : solveAsWritten cc ctl cfc fuel root ctx0 = .done r) {θ : List Int} (hlen : θ.length + 1 = root.tab.nt)
    (hnn : ∀ a ∈ θ, 0 ≤ a) (hsat : CtxSat ctx0 (1 :: θ)) {x : List Int}
    (hx : (resToTree r).eval θ = .point x) : IsLexMin root (1 :: θ) x := by
  refine solveAsWritten_sound hcc ctl h hs ⟨by simp [hlen], rfl, ?_⟩ hsat (resToTree_eval_point r θ x hx)
  intro a ha
  rcases List.mem_cons.mp ha with rfl | ha
  · decide
  · exact hnn a ha

end PPLV.PIPCore
