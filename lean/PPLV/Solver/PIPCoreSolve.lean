import PPLV.Solver.PIPCore
/-!
# C07 stage 2 — the core of the PIP solver, part 2: sign analysis, pivot selection, cuts, `solve`
(executable model, no Mathlib; code-shaped transliteration of `/repo/src/PIP_Tree.cc`)

`compatibility_check` enters `solve` as a parameter `cc : Mat → Option Bool` (`none`: out of fuel); its own
model is `PIPCoreCompat.lean`, the driver plugs that model in, the theorems take its decision contract as
hypothesis.

Line numbers cited here and in the proof files refer to `PIP_Tree.cc` before commit deb2fdf (repair of KF-C07-12);
that commit inserts 21 lines at 2823-2870, later lines are shifted accordingly.
-/
namespace PPLV.PIPCore

def sgn (a : Int) : Int := if a > 0 then 1 else if a < 0 then -1 else 0

/-! ### `row_sign` (PIP_Tree.cc:2180-2220) -/

/-- the scan of lines 2196-2211; `none` = `return MIXED` from inside the loop -/
def rowSignScan : Row → RowSign → Option RowSign
  | [], sg => some sg
  | a :: as, sg =>
    if a > 0 then (if sg = .negative then none else rowSignScan as .positive)
    else if a < 0 then (if sg = .positive then none else rowSignScan as .negative)
    else rowSignScan as sg

def rowSign (x : Row) (big : Option Nat) : RowSign :=
  let viaBig : Option RowSign :=
    match big with
    | some b => let xb := rget x b
                if xb > 0 then some .positive else if xb < 0 then some .negative else none
    | none => none
  match viaBig with
  | some s => s
  | none =>
    match rowSignScan x .zero with
    | none => .mixed
    | some sg => if sg = .negative ∧ rget x 0 = 0 then .mixed else sg

/-! ### small row helpers -/

/-- `complement_assign` (PIP_Tree.cc:223-242): `x / denom == - y / denom - 1` rounded to the integers -/
def complementAssign (y : Row) (denom : Int) : Row :=
  let x := y.map (fun a => -a)
  let x0 := rget x 0
  let x0' := if denom = 1 then x0 - 1
             else let m := posRem x0 denom
                  x0 - (if m = 0 then denom else m)
  rset x 0 x0'

/-- `Sparse_Row::normalize` (Sparse_Row.cc:212): divide by the gcd of all entries -/
def rowNormalizeAll (r : Row) : Row :=
  let g := rowGcd 0 r
  if g = 0 ∨ g = 1 then r else r.map (· / g)

/-- `integral_simplification` (PIP_Tree.cc:586-611) -/
def integralSimplification (row : Row) : Row :=
  let row :=
    if rget row 0 ≠ 0 then
      let g := rowGcd 0 (row.drop 1)
      if g ≠ 1 then rset row 0 (rget row 0 - posRem (rget row 0) g) else row
    else row
  rowNormalizeAll row

/-- the `Constraint` constructor strongly normalises `expr >= 0` (Constraint_inlines.hh:337): the
    coefficients and the inhomogeneous term are divided by their gcd.  `add_constraint`
    (PIP_Tree.cc:1244-1271) -/
def addConstraint (cons : List Row) (row : Row) : List Row := cons ++ [rowNormalizeAll row]

def rowSum (r : Row) : Int := r.foldl (· + ·) 0
def hasPositive (r : Row) : Bool := r.any (· > 0)

/-! ### the lexicographic column choice (PIP_Tree.cc:395-559) -/

/-- the scan of the remaining candidates for a variable that is in base (lines 433-455);
    state: `(min_column, sij_b, new_candidates)` (new candidates in reverse order) -/
def flmcBaseScan (pivotRow : Row) (rowIndex : Nat) :
    List Nat → (Nat × Int × List Nat) → (Nat × Int × List Nat)
  | [], st => st
  | c :: cs, (minCol, sijb, acc) =>
    let sija := rget pivotRow c
    if rowIndex ≠ c then
      if rowIndex = minCol then flmcBaseScan pivotRow rowIndex cs (c, sija, [c])
      else flmcBaseScan pivotRow rowIndex cs (minCol, sijb, c :: acc)
    else flmcBaseScan pivotRow rowIndex cs (minCol, sijb, acc)

/-- the scan for a variable that is not in base (lines 472-510);
    state: `(min_column, sij_b, row_jb, new_candidates)` -/
def flmcRowScan (pivotRow row : Row) :
    List Nat → (Nat × Int × Int × List Nat) → (Nat × Int × Int × List Nat)
  | [], st => st
  | c :: cs, (minCol, sijb, rowjb, acc) =>
    let sija := rget pivotRow c
    let rowja := rget row c
    let lhs := sijb * rowja
    let rhs := sija * rowjb
    if lhs = rhs then flmcRowScan pivotRow row cs (minCol, sijb, rowjb, c :: acc)
    else if lhs < rhs then flmcRowScan pivotRow row cs (c, sija, rowja, [c])
    else flmcRowScan pivotRow row cs (minCol, sijb, rowjb, acc)

/-- `find_lexico_minimal_column_in_set` (PIP_Tree.cc:401-516): `varIndex` runs over `0 .. num_vars-1` -/
def flmcInSet (tableau : Mat) (mapping : List Nat) (basis : List Bool) (pivotRow : Row) :
    Nat → Nat → List Nat → List Nat
  | 0, _, cands => cands
  | fuel + 1, varIndex, cands =>
    match cands with
    | [] => []
    | [c] => [c]                      -- "Only one candidate left, so it is the minimum."
    | c0 :: rest =>
      let sijb := rget pivotRow c0
      let rowIndex := natGet mapping varIndex
      let new :=
        if boolGet basis varIndex then (flmcBaseScan pivotRow rowIndex rest (c0, sijb, [c0])).2.2.reverse
        else
          let row := mrow tableau rowIndex
          (flmcRowScan pivotRow row rest (c0, sijb, rget row c0, [c0])).2.2.2.reverse
      flmcInSet tableau mapping basis pivotRow fuel (varIndex + 1) new

/-- `find_lexico_minimal_column` (PIP_Tree.cc:522-559); `none` = `return false` -/
def findLexicoMinimalColumn (tableau : Mat) (mapping : List Nat) (basis : List Bool)
    (pivotRow : Row) (startJ : Nat) : Option Nat :=
  let cands := (List.range pivotRow.length).filter (fun j => startJ ≤ j ∧ rget pivotRow j > 0)
  match cands with
  | [] => none
  | _ => (flmcInSet tableau mapping basis pivotRow mapping.length 0 cands).head?

/-! ### `column_lower` and `is_better_pivot` (PIP_Tree.cc:275-393, 1756-1844) -/

/-- the `while (true)` of `column_lower`, lines 318-389; NB: the test `++k >= num_vars` comes before the
    comparison, so the last variable is never looked at -/
def columnLowerLoop (tableau : Mat) (mapping : List Nat) (basis : List Bool) (ja jb : Nat)
    (lhsCoeff rhsCoeff : Int) : Nat → Nat → Bool
  | 0, _ => false
  | fuel + 1, k =>
    let mk := natGet mapping k
    let inBase := boolGet basis k
    if k + 1 ≥ mapping.length then false else
    let next := columnLowerLoop tableau mapping basis ja jb lhsCoeff rhsCoeff fuel (k + 1)
    if inBase then
      if mk = ja then (if lhsCoeff = 0 then next else decide (lhsCoeff > 0))
      else if mk = jb then (if rhsCoeff = 0 then next else decide (0 > rhsCoeff))
      else next
    else
      let a := mget tableau mk ja
      let b := mget tableau mk jb
      if a = 0 then
        if b = 0 then next
        else
          let rs := sgn rhsCoeff * sgn b
          if rs = 0 then next else decide (0 > rs)
      else if b = 0 then
        let ls := sgn lhsCoeff * sgn a
        if ls = 0 then next else decide (ls > 0)
      else
        let lhs := lhsCoeff * a
        let rhs := rhsCoeff * b
        if lhs = rhs then next else decide (lhs > rhs)

def columnLower (tableau : Mat) (mapping : List Nat) (basis : List Bool)
    (pivotA : Row) (ja : Nat) (pivotB : Row) (jb : Nat) (cstA cstB : Int) : Bool :=
  let sija := rget pivotA ja
  let sijb := rget pivotB jb
  let lhsCoeff := cstA * sijb
  let rhsCoeff := cstB * sija
  if ja = jb then decide (lhsCoeff > rhsCoeff)
  else columnLowerLoop tableau mapping basis ja jb lhsCoeff rhsCoeff mapping.length 0

/-- first `(i, j)` (rows outer, parameter columns inner) with `t_0[j]*s_1_1*s[i][col_0] ≠
    t_1[j]*s_0_0*s[i][col_1]` (lines 1782-1836; the merge of the two sparse rows visits the indices
    in increasing order and an index stored in one row only is compared with 0) -/
def firstMismatch (T : Tableau) (row0 col0 row1 col1 : Nat) : Option Nat :=
  let s00 := mget T.s row0 col0
  let s11 := mget T.s row1 col1
  let t0 := mrow T.t row0
  let t1 := mrow T.t row1
  (List.range T.s.length).findSome? fun i =>
    let a := mget T.s i col0
    let b := mget T.s i col1
    (List.range T.nt).find? fun j => rget t0 j * s11 * a ≠ rget t1 j * s00 * b

def isBetterPivot (T : Tableau) (mapping : List Nat) (basis : List Bool)
    (row0 col0 row1 col1 : Nat) : Bool :=
  match firstMismatch T row0 col0 row1 col1 with
  | none => false
  | some jm =>
    columnLower T.s mapping basis (mrow T.s row0) col0 (mrow T.s row1) col1
      (mget T.t row0 jm) (mget T.t row1 jm)

/-! ### `generate_cut` (PIP_Tree.cc:3521-3785) -/

/-- the constructor of `Artificial_Parameter` (PIP_Tree.cc:956-998) for a positive denominator -/
def ArtP.mk' (num : Row) (den : Int) : ArtP :=
  let g := rowGcd 0 num
  if g = 1 then ⟨num, den⟩ else
  let g := if g = 0 then den else gcdI den g
  if g = 1 then ⟨num, den⟩ else ⟨num.map (· / g), den / g⟩

/-- search of lines 3612-3624 in the node's own list, last to first; the nodes of a tree that is being
    built have no parent yet (`parent_` is set by the `PIP_Decision_Node` constructor afterwards) -/
def findArt (arts : List ArtP) (ap : ArtP) : Option Nat :=
  let n := arts.length
  (rowsDown n).find? fun j => arts.getD j default == ap

def addZeroColumn (m : Mat) : Mat := m.map (· ++ [0])

def generateCut (nd : SolNode) (ctx : Mat) (index : Nat) : SolNode × Mat :=
  let T := nd.tab
  let numRows := T.t.length
  let numVars := T.ns
  let numParams := T.nt
  let denom := T.den
  let rowT := mrow T.t index
  let parametric := (rowT.drop 1).any fun a => a % denom ≠ 0
  -- numerator of the artificial parameter: `denom - mod` where `mod ≠ 0`
  let apNum : Row := rowT.map fun a => let m := posRem a denom; if m ≠ 0 then denom - m else 0
  let (nd, ctx, apColumn) : SolNode × Mat × Option Nat :=
    if parametric then
      let ap := ArtP.mk' apNum denom
      match findArt nd.arts ap with
      | some j => (nd, ctx, some (numParams - nd.arts.length + j))
      | none =>
        let T' := { T with t := addZeroColumn T.t, nt := T.nt + 1 }
        let ctx := addZeroColumn ctx
        -- the two context rows of lines 3652-3703
        let m0 := posRem (rget rowT 0) denom
        let c1head : Int := if m0 ≠ 0 then denom - m0 else 0
        let c2head : Int := if m0 ≠ 0 then -(denom - m0) + denom - 1 else denom - 1
        let c1tail : Row := (rowT.drop 1).map fun a => let m := posRem a denom; if m ≠ 0 then denom - m else 0
        let c2tail : Row := c1tail.map fun a => -a
        let ctx1 : Row := (c1head :: c1tail) ++ [-denom]
        let ctx2 : Row := (c2head :: c2tail) ++ [denom]
        ({ nd with tab := T', arts := nd.arts ++ [ap] }, ctx ++ [ctx1, ctx2], some numParams)
    else (nd, ctx, none)
  let T := nd.tab
  let rowS := mrow T.s index
  let rowT := mrow T.t index
  let cutS : Row := rowS.map fun a => posRem a denom
  let cutT : Row := rowT.map fun a => let m := posRem a denom; if m ≠ 0 then m - denom else 0
  let cutT := match apColumn with
    | some c => rset cutT c denom
    | none => cutT
  ({ nd with
     tab := { T with s := T.s ++ [cutS], t := T.t ++ [cutT] }
     varRow := nd.varRow ++ [numRows + numVars]
     basis := nd.basis ++ [false]
     mapping := nd.mapping ++ [numRows]
     sign := nd.sign ++ [.negative] }, ctx)

/-! ### the tree under construction -/

inductive CTree
  | sol (nd : SolNode)
  | dec (arts : List ArtP) (cons : List Row) (t : CTree) (f : Option CTree)
deriving Repr, Inhabited

inductive Res
  | fuel
  | done (t : Option CTree)
deriving Repr, Inhabited

/-- control parameters: `cut` 0 = `CUTTING_STRATEGY_FIRST`, 1 = `DEEPEST`, 2 = `ALL`;
    `piv` 0 = `PIVOT_ROW_STRATEGY_FIRST`, 1 = `MAX_COLUMN` -/
structure Ctl where
  cut : Nat := 0
  piv : Nat := 0
deriving Repr, Inhabited

/-! ### the stages of one iteration of the main loop of `PIP_Solution_Node::solve` -/

structure Firsts where
  neg : Option Nat := none
  mix : Option Nat := none
deriving Repr, Inhabited

/-- "(Re-) Compute parameter row signs" (PIP_Tree.cc:2695-2712) -/
def recomputeSigns (nd : SolNode) : List RowSign × Firsts :=
  (List.range nd.tab.t.length).foldl (fun (st : List RowSign × Firsts) i =>
    let (sg, fs) := st
    let si := signGet sg i
    let si := if si = .unknown ∨ si = .mixed then rowSign (mrow nd.tab.t i) nd.big else si
    let sg := sg.set i si
    if si = .negative ∧ fs.neg = none then (sg, { fs with neg := some i })
    else if si = .mixed ∧ fs.mix = none then (sg, { fs with mix := some i })
    else (sg, fs)) (nd.sign, {})

/-- `compatibility_check(context, row)` (PIP_Tree.cc:2222-2228) -/
def ccRow (cc : Mat → Option Bool) (ctx : Mat) (row : Row) : Option Bool := cc (ctx ++ [row])

/-- first refinement of the mixed rows (PIP_Tree.cc:2714-2753); `none`: `cc` ran out of fuel -/
def refineMixed1 (cc : Mat → Option Bool) (T : Tableau) (ctx : Mat) (start : Nat) :
    List Nat → (List RowSign × Firsts) → Option (List RowSign × Firsts)
  | [], st => some st
  | i :: is, (sg, fs) =>
    if signGet sg i ≠ .mixed then refineMixed1 cc T ctx start is (sg, fs) else
    let ti := mrow T.t i
    match ccRow cc ctx ti with
    | none => none
    | some b1 =>
      match ccRow cc ctx (complementAssign ti T.den) with
      | none => none
      | some b2 =>
        let new : RowSign :=
          if b2 then (if b1 then .mixed else .negative) else (if b1 then .positive else .zero)
        let sg := sg.set i new
        let fs : Firsts :=
          if new = .negative ∧ fs.neg = none then
            { neg := some i, mix := if fs.mix = some i then none else fs.mix }
          else if new = .mixed then
            (if fs.mix = none then { fs with mix := some i } else fs)
          else if fs.mix = some i then { fs with mix := none } else fs
        refineMixed1 cc T ctx start is (sg, fs)

/-- the row `t_i(z) > 0` of lines 2783-2787 -/
def strictRow (ti : Row) (den : Int) : Row :=
  let r0 := rget ti 0
  let m := posRem r0 den
  rset ti 0 (r0 - (if m = 0 then den else m))

/-- second refinement (PIP_Tree.cc:2755-2808) -/
def refineMixed2 (cc : Mat → Option Bool) (T : Tableau) (ctx : Mat) :
    List Nat → (List RowSign × Firsts) → Option (List RowSign × Firsts)
  | [], st => some st
  | i :: is, (sg, fs) =>
    if signGet sg i ≠ .mixed then refineMixed2 cc T ctx is (sg, fs) else
    if !hasPositive (mrow T.s i) then refineMixed2 cc T ctx is (sg, fs) else
    match ccRow cc ctx (strictRow (mrow T.t i) T.den) with
    | none => none
    | some true =>
      let fs := if fs.mix = none then { fs with mix := some i } else fs
      refineMixed2 cc T ctx is (sg, fs)
    | some false =>
      let sg := sg.set i .negative
      let fs : Firsts := { neg := if fs.neg = none then some i else fs.neg,
                           mix := if fs.mix = some i then none else fs.mix }
      refineMixed2 cc T ctx is (sg, fs)

def rangeFrom (a b : Nat) : List Nat := (List.range (b - a)).map (· + a)

/-- the whole sign analysis of one iteration (PIP_Tree.cc:2695-2808) -/
def signAnalysis (cc : Mat → Option Bool) (nd : SolNode) (ctx : Mat) : Option (List RowSign × Firsts) :=
  let numRows := nd.tab.t.length
  let st := recomputeSigns nd
  let st1 : Option (List RowSign × Firsts) :=
    match st.2.neg, st.2.mix with
    | none, some fm => refineMixed1 cc nd.tab ctx fm (rangeFrom fm numRows) st
    | _, _ => some st
  match st1 with
  | none => none
  | some st =>
    match st.2.neg, st.2.mix with
    | none, some fm => refineMixed2 cc nd.tab ctx (rangeFrom fm numRows) st
    | _, _ => some st

/-- "Search for the best pivot row" (PIP_Tree.cc:2821-2850); outer `none`: no positive `s_ij` in a
    negative row, the problem is unfeasible; the state is `(pi, pj)` -/
def choosePivot (ctl : Ctl) (nd : SolNode) (sg : List RowSign) :
    List Nat → Option (Nat × Nat) → Option (Option (Nat × Nat))
  | [], st => some st
  | i :: is, st =>
    if signGet sg i ≠ .negative then choosePivot ctl nd sg is st else
    match findLexicoMinimalColumn nd.tab.s nd.mapping nd.basis (mrow nd.tab.s i) 0 with
    | none => none
    | some j =>
      let better := match st with
        | none => true
        | some (pi, pj) => isBetterPivot nd.tab nd.mapping nd.basis i j pi pj
      if better then
        (if ctl.piv = 0 then some (some (i, j)) else choosePivot ctl nd sg is (some (i, j)))
      else choosePivot ctl nd sg is st

/-- the mixed row with no positive variable coefficient of minimal score (PIP_Tree.cc:3066-3109) -/
def findINeg (T : Tableau) (sg : List RowSign) : List Nat → Option (Nat × Int) → Option (Nat × Int)
  | [], st => st
  | i :: is, st =>
    if signGet sg i ≠ .mixed then findINeg T sg is st else
    if hasPositive (mrow T.s i) then findINeg T sg is st else
    let score := rowSum (mrow T.t i)
    match st with
    | none => findINeg T sg is (some (i, score))
    | some (_, best) => if score < best then findINeg T sg is (some (i, score)) else findINeg T sg is st

/-- "Heuristically choose best (mixed) pivoting row" (PIP_Tree.cc:3139-3159).  NB: `best_score` is the
    variable of the previous loop: it is only assigned there when a row without positive coefficient was
    found, and in that case this loop is not reached; so the first mixed row always initialises it. -/
def findBestI (T : Tableau) (sg : List RowSign) : List Nat → Option (Nat × Int) → Option (Nat × Int)
  | [], st => st
  | i :: is, st =>
    if signGet sg i ≠ .mixed then findBestI T sg is st else
    let score := rowSum (mrow T.t i)
    match st with
    | none => findBestI T sg is (some (i, score))
    | some (_, best) => if score < best then findBestI T sg is (some (i, score)) else findBestI T sg is st

/-- is the basic solution integral?  (PIP_Tree.cc:3369-3386) -/
def solutionIntegral (nd : SolNode) : Bool :=
  (List.range nd.tab.ns).all fun k =>
    boolGet nd.basis k || (mrow nd.tab.t (natGet nd.mapping k)).all (fun a => a % nd.tab.den = 0)

def pcountOf (r : Row) (den : Int) : Nat := (r.filter fun a => posRem a den ≠ 0).length

/-- `CUTTING_STRATEGY_FIRST` (PIP_Tree.cc:3403-3426): `(best_i, best_pcount)` -/
def cutRowFirst (nd : SolNode) : Option Nat :=
  ((List.range nd.tab.ns).foldl (fun (st : Option (Nat × Nat)) k =>
    if boolGet nd.basis k then st else
    let i := natGet nd.mapping k
    let pc := pcountOf (mrow nd.tab.t i) nd.tab.den
    let better : Bool := match st with | none => true | some (_, b) => decide (pc < b)
    if pc > 0 ∧ better then some (i, pc) else st) none).map (·.1)

/-- `CUTTING_STRATEGY_DEEPEST / ALL` (PIP_Tree.cc:3430-3501): `(best, all_best_is)`.  The `s_score` of
    the code adds `denom - mod` for every *stored* entry of the sparse row; the model counts the
    non-zero entries (a stored zero would add `denom`). -/
def cutRowsDeepest (nd : SolNode) : Option Nat × List Nat :=
  let den := nd.tab.den
  let r := (List.range nd.tab.ns).foldl (fun (st : Option (Nat × Nat × Int) × List Nat) k =>
    if boolGet nd.basis k then st else
    let (best, all) := st
    let i := natGet nd.mapping k
    let ti := mrow nd.tab.t i
    let pc := pcountOf ti den
    let score : Int := (ti.map fun a => let m := posRem a den; if m ≠ 0 then den - m else 0).foldl (· + ·) 0
    let sScore : Int := ((mrow nd.tab.s i).map fun a => if a = 0 then 0 else den - posRem a den).foldl (· + ·) 0
    let score := score * sScore
    let take : Bool := pc ≠ 0 && (match best with
      | none => true
      | some (_, bpc, bsc) => pc < bpc || (pc == bpc && score > bsc))
    let lt : Bool := match best with | none => true | some (_, bpc, _) => pc < bpc
    let all := if take && lt then [] else all
    let best := if take then some (i, pc, score) else best
    let all := if pc > 0 then all ++ [i] else all
    (best, all)) (none, [])
  (r.1.map (·.1), r.2)

def generateCuts (ctl : Ctl) (nd : SolNode) (ctx : Mat) : SolNode × Mat :=
  if ctl.cut = 0 then
    match cutRowFirst nd with
    | some i => generateCut nd ctx i
    | none => (nd, ctx)
  else
    let (best, all) := cutRowsDeepest nd
    if ctl.cut = 1 then
      match best with
      | some i => generateCut nd ctx i
      | none => (nd, ctx)
    else all.reverse.foldl (fun (st : SolNode × Mat) i => generateCut st.1 st.2 i) (nd, ctx)

/-- the node a child's `solve` returned is a decision node with a false child -/
def CTree.hasFalseChild : CTree → Bool
  | .dec _ _ _ (some _) => true
  | _ => false

/-- `cs ++ constraints_` / `aps ++ artificial_parameters` swapped into the node, then `add_constraint(test)`
    (PIP_Tree.cc:3250-3264 and 3298-3313) -/
def CTree.mergeInto (aps : List ArtP) (cs : List Row) (test : Row) : CTree → CTree
  | .sol nd => .sol { nd with arts := aps ++ nd.arts, cons := addConstraint (cs ++ nd.cons) test }
  | .dec arts cons t f => .dec (aps ++ arts) (addConstraint (cs ++ cons) test) t f

/-- the case analysis after the two recursive calls (PIP_Tree.cc:3217-3353) -/
def assemble (aps : List ArtP) (cs : List Row) (tTest fTest : Row)
    (tNode fNode : Option CTree) : Option CTree :=
  match tNode, fNode with
  | none, none => none
  | none, some f =>
    if f.hasFalseChild then some (.dec aps (addConstraint cs fTest) f none)
    else some (f.mergeInto aps cs fTest)
  | some t, none =>
    if t.hasFalseChild then some (.dec aps (addConstraint cs tTest) t none)
    else some (t.mergeInto aps cs tTest)
  | some t, some f =>
    let parent := fun (a : List ArtP) => CTree.dec a (addConstraint [] tTest) t (some f)
    if !cs.isEmpty then some (.dec aps cs (parent []) none) else some (parent aps)

/-- outcome of "Search for the best pivot row" (PIP_Tree.cc:2821-2870) -/
inductive PivR
  | nothing                      -- unreachable: no negative row in the range
  | found (pi pj : Nat)
  | stuck (i : Nat)              -- row `i` is cached NEGATIVE and has no positive `s_ij`
deriving Repr, DecidableEq, Inhabited

/-- `choosePivot` that also says WHICH row has no positive coefficient -/
def choosePivotR (ctl : Ctl) (nd : SolNode) (sg : List RowSign) : List Nat → Option (Nat × Nat) → PivR
  | [], none => .nothing
  | [], some (pi, pj) => .found pi pj
  | i :: is, st =>
    if signGet sg i ≠ .negative then choosePivotR ctl nd sg is st else
    match findLexicoMinimalColumn nd.tab.s nd.mapping nd.basis (mrow nd.tab.s i) 0 with
    | none => .stuck i
    | some j =>
      let better := match st with
        | none => true
        | some (pi, pj) => isBetterPivot nd.tab nd.mapping nd.basis i j pi pj
      if better then
        (if ctl.piv = 0 then .found i j else choosePivotR ctl nd sg is (some (i, j)))
      else choosePivotR ctl nd sg is st

/-- row `i` mentions the big parameter -/
def viaBig (nd : SolNode) (i : Nat) : Bool :=
  match nd.big with
  | some b => rget (mrow nd.tab.t i) b != 0
  | none => false

/-- `PIP_Solution_Node::solve` (PIP_Tree.cc:2642-3540, with the repair of finding KF-C07-12, commit deb2fdf)
    for a node that has no artificial parameter and no constraint of its own at entry (a fresh root; the copy
    made with `No_Constraints`; `this` after its lists were swapped aside), so that lines 2658-2662 just copy
    the context.  `entry = true`: the call starts here (feasibility of the context is re-checked when
    `check_feasible_context`); `entry = false`: next iteration of the main loop.
    The code before the repair is `solveGoAsWritten` (`PIPCoreSolveAsWritten.lean`). -/
def solveGo (cc : Mat → Option Bool) (ctl : Ctl) (cfc : Bool) :
    Nat → Bool → SolNode → Mat → Res
  | 0, _, _, _ => .fuel
  | fuel + 1, entry, nd, ctx =>
    if entry && cfc then
      match cc ctx with
      | none => .fuel
      | some false => .done none
      | some true => solveGo cc ctl cfc fuel false nd ctx
    else
    match signAnalysis cc nd ctx with
    | none => .fuel
    | some (sg, fs) =>
      let nd := { nd with sign := sg }
      let numRows := nd.tab.t.length
      match fs.neg with
      | some fneg =>
        match choosePivotR ctl nd sg (rangeFrom fneg numRows) none with
        | .nothing => .fuel
        | .found pi pj => solveGo cc ctl cfc fuel false (pivot nd pi pj) ctx
        | .stuck i =>
          -- a sign obtained from the coefficient of the big parameter is not questioned
          if viaBig nd i then .done none else
          -- (repair of KF-C07-12) the cached NEGATIVE may only mean `t_i(z) <= 0`: is `t_i(z) >= 0` really
          -- incompatible with the context?  If not, the sign is reset to MIXED and the loop starts over
          match ccRow cc ctx (mrow nd.tab.t i) with
          | none => .fuel
          | some true => solveGo cc ctl cfc fuel false { nd with sign := sg.set i .mixed } ctx
          | some false => .done none                    -- "No positive pivot: Solution = _|_"
      | none =>
        match fs.mix with
        | some fmix =>
          match findINeg nd.tab sg (rangeFrom fmix numRows) none with
          | some (iNeg, _) =>
            let tautology := integralSimplification (mrow nd.tab.t iNeg)
            let nd := { nd with cons := addConstraint nd.cons tautology, sign := nd.sign.set iNeg .positive }
            solveGo cc ctl cfc fuel false nd (ctx ++ [tautology])
          | none =>
            match findBestI nd.tab sg (rangeFrom fmix numRows) none with
            | none => .fuel
            | some (bestI, _) =>
              let tTest := integralSimplification (mrow nd.tab.t bestI)
              let child := { nd with arts := [], cons := [] }
              match solveGo cc ctl cfc fuel true child (ctx ++ [tTest]) with
              | .fuel => .fuel
              | .done tNode =>
                let fTest := complementAssign tTest 1
                match solveGo cc ctl cfc fuel true child (ctx ++ [fTest]) with
                | .fuel => .fuel
                | .done fNode => .done (assemble nd.arts nd.cons tTest fTest tNode fNode)
        | none =>
          let nd := { nd with tab := nd.tab.normalize }
          if solutionIntegral nd then .done (some (.sol nd))
          else
            let (nd, ctx) := generateCuts ctl nd ctx
            solveGo cc ctl cfc fuel false nd ctx

def solve (cc : Mat → Option Bool) (ctl : Ctl) (cfc : Bool) (fuel : Nat) (nd : SolNode) (ctx : Mat) : Res :=
  solveGo cc ctl cfc fuel true nd ctx

end PPLV.PIPCore
