import PPLV.Solver.PendingProofsIncr15
import PPLV.Solver.PendingProofsIncrSpec
import PPLV.Solver.PendingProofsOracleIncr

/-!
# C06 stage 3 — the incremental call end to end: `ppc_incremental`, `after_ppc_second`, `incr_step_spec`
-/
namespace PPLV.Solver.Pend
open PPLV.Lin PPLV.Solver PPLV.Solver.Tab

/-- **an incremental call of `process_pending_constraints`**, from the state before the call only -/
theorem ppc_incremental (fc : Chooser) (hfc : ChooserOK fc) (f1 : Nat) (s sR : LPState) (hS : IncrStart s)
    (hobj : s.obj.coeffs.length ≤ s.external_space_dim)
    (h : processPendingConstraints fc f1 s = some sR) :
    (sR.status = .UNSATISFIABLE ∧ ∀ x, ¬ csSem s.input_cs x) ∨
    (ReadyS s.input_cs s.external_space_dim sR ∧ sR.input_cs = s.input_cs ∧ SameData s sR ∧
      (sR.status = .SATISFIABLE ∨
        ((sR.status = .OPTIMIZED ∨ sR.status = .UNBOUNDED) ∧ LPClaims s.input_cs s.problem sR))) := by
  unfold processPendingConstraints at h
  cases hsetup : ppcSetup s with
  | done sd =>
    rw [hsetup] at h
    simp only [Option.some.injEq] at h
    subst h
    obtain ⟨k1, k2, k3, k4, k5⟩ := ppcSetup_done_keeps s sd hsetup
    rcases incr_done s hS hobj sd hsetup with ⟨a1, a2⟩ | ⟨a1, a2, a3⟩
    · exact Or.inl ⟨a1, a2⟩
    · exact Or.inr ⟨a2, k4, ⟨k1, k2, k3, k5⟩, Or.inr ⟨a1, a3⟩⟩
  | phase1 s' b e =>
    rw [hsetup] at h
    simp only at h
    obtain ⟨hP, hmap, hG, gS⟩ := incr_setup s hS s' b e hsetup
    obtain ⟨k1, k2, k3, k4, k5⟩ := ppcSetup_keeps s s' b e hsetup
    cases hrun : computeSimplexWith (chooserOf fc s'.pricing) f1 s'.tab with
    | none => rw [hrun] at h; cases h
    | some res =>
      obtain ⟨ok, t⟩ := res
      rw [hrun] at h
      simp only [Option.some.injEq] at h
      subst h
      rcases ppc_chain fc hfc f1 s.input_cs s.external_space_dim s' b e hP hG hmap ok t hrun with
        ⟨a1, a2⟩ | ⟨a1, a2, a3, a4, a5, a6⟩
      · exact Or.inl ⟨a1, a2⟩
      · right
        obtain ⟨c1, c2⟩ := chain_completeS fc hfc f1 s.input_cs s.external_space_dim s' b e hP hmap gS ok t hrun a1
        exact ⟨⟨a2, c1, c2⟩, by rw [ppcFinish_input_cs, k4], ⟨by rw [a3, k1], by rw [a4, k2], by rw [a6, k3],
          by rw [a5, k5]⟩, Or.inl a1⟩

/-- `second_phase()` after such a call -/
theorem after_ppc_second (fc : Chooser) (hfc : ChooserOK fc) (f2 : Nat) (s sR s2 : LPState)
    (hn : 0 < s.external_space_dim) (hl : ∀ c ∈ s.input_cs, c.coeffs.length ≤ s.external_space_dim)
    (hobj : s.obj.coeffs.length ≤ s.external_space_dim)
    (hR : ReadyS s.input_cs s.external_space_dim sR) (hd : SameData s sR)
    (hst : sR.status = .SATISFIABLE ∨
      ((sR.status = .OPTIMIZED ∨ sR.status = .UNBOUNDED) ∧ LPClaims s.input_cs s.problem sR))
    (h2 : secondPhase fc f2 sR = some s2) :
    LPClaims s.input_cs s.problem s2 ∧ ReadyS s.input_cs s.external_space_dim s2 := by
  obtain ⟨d1, d2, d3, d4⟩ := hd
  rcases hst with hsat | ⟨hst, hcl⟩
  · exact ⟨secondPhase_fresh_witness fc hfc f2 s sR s2 hsat hR.ready d1 d2 d3 hn hl hobj h2,
      readyS_after_secondPhase fc hfc f2 s.input_cs s.external_space_dim sR s2 hsat hR (by rw [d1]; exact hobj) h2⟩
  · have : s2 = sR := by
      unfold secondPhase at h2
      rw [if_pos (by rcases hst with h | h <;> rw [h] <;> rfl)] at h2
      simp only [Option.some.injEq] at h2
      exact h2.symm
    subst this
    exact ⟨hcl, hR⟩

/-- **END TO END, incremental**: `process_pending_constraints()` on a state whose first `first_pending` constraints
    are processed, then `second_phase()` -/
theorem lp_incremental_correct (fc : Chooser) (hfc : ChooserOK fc) (f1 f2 : Nat) (s sR : LPState) (hS : IncrStart s)
    (hobj : s.obj.coeffs.length ≤ s.external_space_dim)
    (h : processPendingConstraints fc f1 s = some sR) :
    (sR.status = .UNSATISFIABLE ∧ ∀ x, ¬ csSem s.input_cs x) ∨
    (sR.status ≠ .UNSATISFIABLE ∧ (∃ x, csSem s.input_cs x) ∧ ReadyS s.input_cs s.external_space_dim sR ∧
      ∀ s2, secondPhase fc f2 sR = some s2 →
        LPClaims s.input_cs s.problem s2 ∧ ReadyS s.input_cs s.external_space_dim s2) := by
  rcases ppc_incremental fc hfc f1 s sR hS hobj h with a | ⟨a1, a2, a3, a4⟩
  · exact Or.inl a
  · right
    refine ⟨?_, ready_exists _ _ _ a1.ready, a1, fun s2 h2 =>
      after_ppc_second fc hfc f2 s sR s2 hS.npos hS.lens hobj a1 a3 a4 h2⟩
    rcases a4 with h | ⟨h | h, -⟩ <;> rw [h] <;> intro hh <;> cases hh

end PPLV.Solver.Pend
