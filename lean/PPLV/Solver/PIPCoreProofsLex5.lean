import PPLV.Solver.PIPCoreProofsLex4
import Mathlib.Tactic.Linarith
import Mathlib.Tactic.Ring
/-!
# C07 stage 2 — the lexicographic invariant, part 5: complements.

* `init_lexpos`: a node whose first `ns` variables are the column variables, in order (a fresh root), has
  lexico-non-negative columns.
* `lexLeFrom_antisymm`, `lex_min_unique`: the lexicographic minimum is unique.
* `normalize_lexmincol`: a lexico-minimal column stays lexico-minimal through `Tableau::normalize`
  (the column is chosen before, the pivot is done after the normalisation inside `solve`).
* `solve_pivot_lexpos`: the chain code-level choice → normalisation → pivot (by `PivotSpec`).
-/
namespace PPLV.PIPCore

/-! ### the initial node -/

theorem Lex.lexnn_first_pos (F : Nat → Row) (j p : Nat) (hp : 0 < rget (F p) j) :
    ∀ (len a : Nat), a ≤ p → p < a + len → (∀ k, a ≤ k → k < p → rget (F k) j = 0) →
      LexNonnegCol ((List.range' a len).map F) j
  | 0, a, h1, h2, _ => by omega
  | len + 1, a, h1, h2, hz => by
    show LexNonnegCol (F a :: (List.range' (a + 1) len).map F) j
    by_cases hap : a = p
    · subst hap; exact Or.inl hp
    · exact Or.inr ⟨hz a (le_refl a) (by omega),
        Lex.lexnn_first_pos F j p hp len (a + 1) (by omega) (by omega)
          (fun k hk1 hk2 => hz k (by omega) hk2)⟩

/-- **`init_lexpos`**: if the variables `0 .. ns-1` are the column variables of the columns `0 .. ns-1`
    (the tableau `PIP_Solution_Node::update_tableau` builds for a fresh root), the columns are
    lexico-positive: column `j` starts with `j` zeros followed by `den`. -/
theorem init_lexpos (nd : SolNode) :
    WF nd → (∀ k, k < nd.tab.ns → boolGet nd.basis k = true ∧ natGet nd.mapping k = k) →
    LexPos nd := by
  intro hwf hinit j hj
  unfold fullRows
  rw [List.range_eq_range']
  have hrow : ∀ k, k < nd.tab.ns → rget (fullRow nd k) j = if j = k then nd.tab.den else 0 := by
    intro k hk
    unfold fullRow
    rw [(hinit k hk).1, (hinit k hk).2]
    simp only [if_true]
    exact Lex.rget_unit _ _ _ _ hj
  apply Lex.lexnn_first_pos (fullRow nd) j j _ _ 0 (Nat.zero_le _)
  · rw [hwf.map_len]; omega
  · intro k _ hk
    rw [hrow k (by omega), if_neg (by omega)]
  · rw [hrow j hj, if_pos rfl]; exact hwf.den_pos

/-! ### uniqueness of the lexicographic minimum -/

theorem lexLeFrom_antisymm (v w : Nat → Int) : ∀ (n k : Nat),
    lexLeFrom v w k n → lexLeFrom w v k n → ∀ i, i < n → v (k + i) = w (k + i)
  | 0, _, _, _, i, hi => by omega
  | n + 1, k, h1, h2, i, hi => by
    rcases h1 with h1 | ⟨e1, t1⟩
    · rcases h2 with h2 | ⟨e2, _⟩ <;> omega
    · rcases h2 with h2 | ⟨_, t2⟩
      · omega
      · cases i with
        | zero => exact e1
        | succ i =>
          have := lexLeFrom_antisymm v w n (k + 1) t1 t2 i (by omega)
          have e : k + (i + 1) = k + 1 + i := by omega
          rw [e]; exact this

/-- two basic solutions of two nodes (e.g. reached along different pivot sequences) that are feasible
    for each other's node agree on all common variables -/
theorem lex_min_unique (nd1 nd2 : SolNode) (b1 b2 : Nat → Int) (q : List Int) (n : Nat) :
    WF nd1 → LexPos nd1 → q.length = nd1.tab.nt → IsBasic nd1 b1 q → Feasible nd1 b2 q →
    WF nd2 → LexPos nd2 → q.length = nd2.tab.nt → IsBasic nd2 b2 q → Feasible nd2 b1 q →
    n ≤ nd1.mapping.length → n ≤ nd2.mapping.length →
    ∀ i, i < n → b1 i = b2 i := by
  intro w1 l1 q1 i1 f1 w2 l2 q2 i2 f2 hn1 hn2 i hi
  have h12 := lex_basic_min_prefix nd1 b2 b1 q n w1 l1 q1 f1 i1 hn1
  have h21 := lex_basic_min_prefix nd2 b1 b2 q n w2 l2 q2 f2 i2 hn2
  have := lexLeFrom_antisymm b1 b2 n 0 h12 h21 i hi
  rwa [Nat.zero_add] at this

/-! ### `Tableau::normalize` and the lexico-minimal column -/

/-- the node after a division of the tableau by `g` -/
def Lex.divNode (nd : SolNode) (g : Int) : SolNode :=
  { nd with tab := { nd.tab with s := nd.tab.s.map (·.map (· / g)), t := nd.tab.t.map (·.map (· / g)),
                                 den := nd.tab.den / g } }

theorem Lex.normalize_cases (nd : SolNode) :
    { nd with tab := nd.tab.normalize } = nd ∨
    { nd with tab := nd.tab.normalize }
      = Lex.divNode nd (nd.tab.t.foldl rowGcd (nd.tab.s.foldl rowGcd (gcdI nd.tab.den 0))) := by
  unfold Tableau.normalize
  by_cases h1 : nd.tab.den = 1
  · left; rw [if_pos h1]
  · rw [if_neg h1]
    dsimp only
    by_cases h2 : nd.tab.t.foldl rowGcd (nd.tab.s.foldl rowGcd (gcdI nd.tab.den 0)) = 1
    · left; rw [if_pos h2]
    · right; rw [if_neg h2]; rfl

theorem Lex.mget_divNode (nd : SolNode) (g : Int) (i j : Nat) :
    mget (Lex.divNode nd g).tab.s i j = mget nd.tab.s i j / g := by
  unfold Lex.divNode mget
  dsimp only
  rw [Lex.mrow_map _ rfl, Lex.rget_map0 (fun x => x / g) (Int.zero_ediv _)]

theorem Lex.fullRow_divNode (nd : SolNode) (g : Int) (hgd : g ∣ nd.tab.den)
    (hgs : ∀ i j, g ∣ mget nd.tab.s i j) (k j : Nat) (hj : j < nd.tab.ns) :
    rget (fullRow (Lex.divNode nd g) k) j = rget (fullRow nd k) j / g ∧ g ∣ rget (fullRow nd k) j := by
  unfold fullRow Lex.divNode
  dsimp only
  cases boolGet nd.basis k with
  | true =>
    simp only [if_true]
    rw [Lex.rget_unit _ _ _ _ hj, Lex.rget_unit _ _ _ _ hj]
    split
    · exact ⟨rfl, hgd⟩
    · exact ⟨(Int.zero_ediv _).symm, dvd_zero g⟩
  | false =>
    simp only [Bool.false_eq_true, if_false]
    rw [Lex.mrow_map _ rfl, Lex.rget_map0 (fun x => x / g) (Int.zero_ediv _)]
    exact ⟨rfl, hgs _ j⟩

theorem Lex.scaled_cmp (g a x b y : Int) (hg : 0 < g) :
    ((g * a) * (g * x) < (g * b) * (g * y) → a * x < b * y)
    ∧ ((g * a) * (g * x) = (g * b) * (g * y) → a * x = b * y) := by
  have hgg : 0 < g * g := mul_pos hg hg
  constructor
  · intro h
    have h2 : (g * g) * (a * x) < (g * g) * (b * y) := by
      calc (g * g) * (a * x) = (g * a) * (g * x) := by ring
        _ < (g * b) * (g * y) := h
        _ = (g * g) * (b * y) := by ring
    exact lt_of_mul_lt_mul_left h2 (le_of_lt hgg)
  · intro h
    have h2 : (g * g) * (a * x) = (g * g) * (b * y) := by
      calc (g * g) * (a * x) = (g * a) * (g * x) := by ring
        _ = (g * b) * (g * y) := h
        _ = (g * g) * (b * y) := by ring
    exact Int.eq_of_mul_eq_mul_left (by omega) h2

/-- dividing all rows and both coefficients by a common positive divisor keeps `LexLeScaled` -/
theorem Lex.lexle_div (F F' : Nat → Row) (g : Int) (hg : 0 < g) (j j' : Nat) (a b : Int)
    (ha : g ∣ a) (hb : g ∣ b) :
    ∀ l : List Nat,
      (∀ k ∈ l, (rget (F' k) j = rget (F k) j / g ∧ g ∣ rget (F k) j)
        ∧ (rget (F' k) j' = rget (F k) j' / g ∧ g ∣ rget (F k) j')) →
      LexLeScaled (l.map F) a j b j' → LexLeScaled (l.map F') (a / g) j (b / g) j'
  | [], _, _ => trivial
  | k :: l, he, hl => by
    have ih := Lex.lexle_div F F' g hg j j' a b ha hb l (fun k hk => he k (by simp [hk]))
    obtain ⟨⟨e1, d1⟩, ⟨e2, d2⟩⟩ := he k (by simp)
    obtain ⟨a', rfl⟩ := ha
    obtain ⟨b', rfl⟩ := hb
    obtain ⟨x', hx⟩ := d1
    obtain ⟨y', hy⟩ := d2
    have hg0 : g ≠ 0 := by omega
    have ea : g * a' / g = a' := Int.mul_ediv_cancel_left _ hg0
    have eb : g * b' / g = b' := Int.mul_ediv_cancel_left _ hg0
    have ex : rget (F' k) j = x' := by rw [e1, hx]; exact Int.mul_ediv_cancel_left _ hg0
    have ey : rget (F' k) j' = y' := by rw [e2, hy]; exact Int.mul_ediv_cancel_left _ hg0
    obtain ⟨c1, c2⟩ := Lex.scaled_cmp g a' x' b' y' hg
    show (g * a' / g) * rget (F' k) j < (g * b' / g) * rget (F' k) j' ∨ _
    rw [ea, eb, ex, ey]
    rcases hl with h | ⟨h, ht⟩
    · left; rw [hx, hy] at h; exact c1 h
    · right
      refine ⟨by rw [hx, hy] at h; exact c2 h, ?_⟩
      have := ih ht
      rw [ea, eb] at this
      exact this

/-- **`normalize_lexmincol`** -/
theorem normalize_lexmincol (nd : SolNode) (pi pj : Nat) :
    0 < nd.tab.den → LexMinCol nd pi pj → LexMinCol { nd with tab := nd.tab.normalize } pi pj := by
  intro hden hmin
  rcases Lex.normalize_cases nd with h | h
  · rw [h]; exact hmin
  · rw [h]
    obtain ⟨g0, gd, gs⟩ := Lex.normGcd_props nd.tab
    have hg : 0 < nd.tab.t.foldl rowGcd (nd.tab.s.foldl rowGcd (gcdI nd.tab.den 0)) := by
      rcases lt_or_eq_of_le g0 with h' | h'
      · exact h'
      · rw [← h'] at gd
        have := zero_dvd_iff.mp gd
        omega
    obtain ⟨hpj, hspp, hall⟩ := hmin
    refine ⟨hpj, ?_, fun j hj hjp => ?_⟩
    · rw [Lex.mget_divNode]
      exact (Lex.sign_ediv _ _ g0 (gs pi pj)).1 hspp
    · have hj' : j < nd.tab.ns := hj
      rw [Lex.mget_divNode] at hjp
      have hjp' : 0 < mget nd.tab.s pi j := by
        by_contra hn
        have : mget nd.tab.s pi j / _ ≤ 0 :=
          Int.ediv_nonpos_of_nonpos_of_neg (by omega) hg
        omega
      rw [Lex.mget_divNode, Lex.mget_divNode]
      unfold fullRows
      exact Lex.lexle_div (fullRow nd) _ _ hg pj j _ _ (gs pi j) (gs pi pj) _
        (fun k _ => ⟨Lex.fullRow_divNode nd _ gd gs k pj hpj, Lex.fullRow_divNode nd _ gd gs k j hj'⟩)
        (hall j hj' hjp')

/-- **`solve_pivot_lexpos`**: one pivoting step of `solve`, from the code-level column choice on the node
    to the pivot on the normalised node (described by `PivotSpec`), keeps the invariant -/
theorem solve_pivot_lexpos (nd nd' : SolNode) (pi pj : Nat) (f : Int) :
    WF nd → LexPos nd → pi < nd.tab.s.length →
    findLexicoMinimalColumn nd.tab.s nd.mapping nd.basis (mrow nd.tab.s pi) 0 = some pj →
    WF { nd with tab := nd.tab.normalize } →
    PivotSpec { nd with tab := nd.tab.normalize } nd' pi pj f →
    LexPos nd' := by
  intro hwf hlp hpi hf hwf0 hs
  have hlen : ({ nd with tab := nd.tab.normalize } : SolNode).tab.s.length = nd.tab.s.length := by
    rw [← hwf0.vr_len, ← hwf.vr_len]
  exact pivot_choice_lexico' _ nd' pi pj f hwf0 (normalize_lexpos nd hlp) (by rw [hlen]; exact hpi)
    (normalize_lexmincol nd pi pj hwf.den_pos (flmc_lexmin nd pi pj hwf hpi hf)) hs

/-! ### non-vacuity -/

example : WF Lex.exNodeB ∧ (∀ k, k < Lex.exNodeB.tab.ns →
      boolGet Lex.exNodeB.basis k = true ∧ natGet Lex.exNodeB.mapping k = k) ∧ LexPos Lex.exNodeB :=
  ⟨Lex.exNodeB_wf, by decide, init_lexpos Lex.exNodeB Lex.exNodeB_wf (by decide)⟩

/-- a node with den 2 and even entries: `normalize` divides by 2; column 1 is lexico-minimal for row 0 -/
def Lex.exNodeE : SolNode :=
  { tab := { s := [[2, 2], [2, -2]], t := [[-4], [2]], den := 2, ns := 2, nt := 1 }
    basis := [true, true, false, false], mapping := [0, 1, 0, 1], varRow := [2, 3], varColumn := [0, 1]
    sign := [.negative, .positive], big := none, arts := [], cons := [] }

theorem Lex.exNodeE_wf : WF Lex.exNodeE :=
  ⟨by decide, by decide, by decide, by decide, by decide, by decide, by decide, by decide, by decide,
   by decide, by decide, by decide⟩

example : 0 < Lex.exNodeE.tab.den ∧ LexMinCol Lex.exNodeE 0 1 ∧ Lex.exNodeE.tab.normalize ≠ Lex.exNodeE.tab
    ∧ LexMinCol { Lex.exNodeE with tab := Lex.exNodeE.tab.normalize } 0 1 :=
  ⟨by decide, by decide, by decide, normalize_lexmincol Lex.exNodeE 0 1 (by decide) (by decide)⟩

/-- the whole step on `Lex.exNodeE`: the normalised node is `Lex.exNodeB`, the pivot is the model's `pivot` -/
example : WF Lex.exNodeE ∧ LexPos Lex.exNodeE
    ∧ findLexicoMinimalColumn Lex.exNodeE.tab.s Lex.exNodeE.mapping Lex.exNodeE.basis (mrow Lex.exNodeE.tab.s 0) 0
        = some 1
    ∧ ({ Lex.exNodeE with tab := Lex.exNodeE.tab.normalize } : SolNode) = Lex.exNodeB
    ∧ pivot Lex.exNodeE 0 1 = pivot Lex.exNodeB 0 1
    ∧ LexPos (pivot Lex.exNodeE 0 1) := by
  have e : ({ Lex.exNodeE with tab := Lex.exNodeE.tab.normalize } : SolNode) = Lex.exNodeB := by decide
  refine ⟨Lex.exNodeE_wf, by decide, by decide, e, by decide, ?_⟩
  refine solve_pivot_lexpos Lex.exNodeE _ 0 1 1 Lex.exNodeE_wf (by decide) (by decide) (by decide) ?_ ?_
  · rw [e]; exact Lex.exNodeB_wf
  · rw [e, show pivot Lex.exNodeE 0 1 = pivot Lex.exNodeB 0 1 by decide]; exact Lex.exNodeB_spec

/-- non-vacuity of `lex_min_unique` (trivially, with the same node twice) -/
example : ∀ i, i < 3 → (fun k => [0, 0, 3].getD k (0 : Int)) i = (fun k => [0, 0, 3].getD k 0) i :=
  lex_min_unique Lex.exNodeA Lex.exNodeA _ _ [1] 3 Lex.exNodeA_wf Lex.exNodeA_lexpos rfl
    (by unfold IsBasic; decide) ⟨by unfold TabSat RowHolds; decide, by decide⟩
    Lex.exNodeA_wf Lex.exNodeA_lexpos rfl
    (by unfold IsBasic; decide) ⟨by unfold TabSat RowHolds; decide, by decide⟩ (by decide) (by decide)

end PPLV.PIPCore
