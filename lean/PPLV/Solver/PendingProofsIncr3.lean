import PPLV.Solver.PendingProofsIncr2

/-!
# C06 stage 3 — the insertion loop (:852–:901) against a non-empty old tableau

`GCtx`: the data of an incremental call after re-merging, without new space dimensions: the old rows padded to the
new width (zero from column `V` = old sign column on: the quirk that `add_zero_columns` turns the old sign column
into the first new column), their `base` (0 for the rows made unfeasible), the mapping (columns below `V`), the
pending constraints and the "already satisfied" flags (each one on an inequality entering the tableau that holds at
the projected basic solution `xstar` of the old rows).
`GInv`: the invariant of the loop; `gstep_eq`: one iteration in closed form with `combineRow`.
-/
namespace PPLV.Solver.Pend
open PPLV.Lin PPLV.Solver PPLV.Solver.Tab

structure GCtx where
  M : List (Nat × Nat)
  nn : List Bool
  n : Nat
  j : Nat
  V : Nat
  numCols : Nat
  pend : List ICon
  isSat : List Bool
  T0 : List Row
  base0 : List Nat
  hM : MapOK M nn n j
  hjV : 1 + j ≤ V
  hlen : ∀ c ∈ pend, c.coeffs.length ≤ n
  hSL : V + (pend.filter slackC).length < numCols
  oLenB : base0.length = T0.length
  oRowLen : ∀ i, i < T0.length → (T0.getD i []).length = numCols
  oZero : ∀ i, i < T0.length → ∀ col, V ≤ col → (T0.getD i []).get col = 0
  oRange : ∀ i, i < T0.length → base0.getD i 0 ≠ 0 → 1 ≤ base0.getD i 0 ∧ base0.getD i 0 < V
  oNZ : ∀ i, i < T0.length → base0.getD i 0 ≠ 0 → (T0.getD i []).get (base0.getD i 0) ≠ 0
  oCol : ∀ i k, i < T0.length → k < T0.length → i ≠ k → base0.getD i 0 ≠ 0 → (T0.getD k []).get (base0.getD i 0) = 0
  hsat : ∀ i, i < pend.length → isSat.getD i false = true →
    slackC (pend.getD i default) = true ∧
      0 ≤ dot (pend.getD i default).coeffs (proj M (bsol T0 base0)) + ((pend.getD i default).k : Rat)

namespace GCtx
variable (C : GCtx)

def R0 : Nat := C.T0.length
def SL : Nat := C.V + (C.pend.filter slackC).length
def Nn : Nat := (C.pend.filter tabC).length
def N : Nat := C.R0 + C.Nn
def xstar : Val := proj C.M (bsol C.T0 C.base0)
def init : Ins :=
  { T := C.T0 ++ List.replicate C.Nn (zeros C.numCols), base := C.base0 ++ List.replicate C.Nn 0, k := C.N,
    slackIndex := C.SL, worked := List.replicate C.N false }
def step (i : Nat) (st : Ins) : Ins := insertStep C.numCols C.M C.pend (C.pend.map tabC) C.isSat i st
def wcount (i : Nat) : Nat := ((List.range C.pend.length).drop i).countP (fun k => C.isSat.getD k false)

/-- one iteration of the insertion loop, in closed form -/
theorem gstep_eq (i : Nat) (hi : i < C.pend.length) (st : Ins) :
    C.step i st =
      if tabC (C.pend.getD i default) = false then st
      else if (C.pend.getD i default).isEq = true then
        { T := st.T.set (st.k - 1)
            (combineRow st.T st.base (st.k - 1) (constraintRow C.numCols C.M (C.pend.getD i default))),
          base := st.base, k := st.k - 1, slackIndex := st.slackIndex, worked := st.worked }
      else if C.isSat.getD i false = true then
        { T := st.T.set (st.k - 1)
            (combineRow st.T (st.base.set (st.k - 1) (st.slackIndex - 1)) (st.k - 1)
              ((constraintRow C.numCols C.M (C.pend.getD i default)).set (st.slackIndex - 1) (-1))),
          base := st.base.set (st.k - 1) (st.slackIndex - 1), k := st.k - 1, slackIndex := st.slackIndex - 1,
          worked := st.worked.set (st.k - 1) true }
      else
        { T := st.T.set (st.k - 1)
            (combineRow st.T st.base (st.k - 1)
              ((constraintRow C.numCols C.M (C.pend.getD i default)).set (st.slackIndex - 1) (-1))),
          base := st.base, k := st.k - 1, slackIndex := st.slackIndex - 1, worked := st.worked } := by
  unfold step insertStep
  rw [InsCtx.map_getD_tabC _ _ hi]
  by_cases ht : tabC (C.pend.getD i default) = true
  swap
  · have ht' : tabC (C.pend.getD i default) = false := by simpa using ht
    rw [ht']; simp
  · rw [ht]
    simp only [Bool.not_true, Bool.false_eq_true, if_false, Bool.true_eq_false]
    by_cases he : (C.pend.getD i default).isEq = true
    · simp only [he, Bool.not_true, Bool.false_eq_true, if_false, if_true]
      rfl
    · have he' : (C.pend.getD i default).isEq = false := by simpa using he
      simp only [he', Bool.not_false, if_true, Bool.false_eq_true, if_false]
      by_cases hsat : C.isSat.getD i false = true
      · rw [if_pos hsat, if_pos hsat]; rfl
      · rw [if_neg hsat, if_neg hsat]; rfl

end GCtx

end PPLV.Solver.Pend
