import PPLV.Solver.PendingProofsIncr9
import PPLV.Solver.PendingProofsMerge

/-!
# C06 stage 3 — incremental set-up: the solutions of the tableau handed over are the encodings of the solution set
-/
namespace PPLV.Solver.Pend
open PPLV.Lin PPLV.Solver PPLV.Solver.Tab

theorem csSem_append (a b : List ICon) (x : Val) : csSem (a ++ b) x ↔ csSem a x ∧ csSem b x := by
  unfold csSem
  constructor
  · intro h; exact ⟨fun c hc => h c (List.mem_append_left _ hc), fun c hc => h c (List.mem_append_right _ hc)⟩
  · intro ⟨h1, h2⟩ c hc
    rcases List.mem_append.mp hc with h | h
    · exact h1 c h
    · exact h2 c h

namespace GCtx
variable (C : GCtx)

/-- the old rows are the padded rows of `Tm` (width `ncm`, sign column `ncm − 1` = `V`) -/
structure OldRows (Tm : List Row) (ncm : Nat) : Prop where
  t0 : C.T0 = padRows Tm C.numCols
  v : C.V = ncm - 1
  nc2 : 2 ≤ ncm

theorem old_rowVal (Tm : List Row) (ncm : Nat) (hO : C.OldRows Tm ncm) (r : Nat) (hr : r < Tm.length) (y : Val) :
    rowVal (C.T0.getD r []) y = rowVal (Tm.getD r []) y := by
  unfold rowVal
  apply dot_congr_support
  intro j
  left
  have := padRows_get Tm C.numCols r j hr
  unfold Row.get at this
  rw [hO.t0]; exact this

theorem R0_eq (Tm : List Row) (ncm : Nat) (hO : C.OldRows Tm ncm) : C.R0 = Tm.length := by
  unfold R0; rw [hO.t0, padRows_length]

/-- **solutions of the tableau handed over by an incremental set-up** -/
theorem incr_sem (unf : List Nat) (hU : C.Unf unf) (cs0 : List ICon) (rm : List Bool) (Tm : List Row) (ncm : Nat)
    (hO : C.OldRows Tm ncm) (hG : OldGood cs0 C.n rm Tm C.M ncm)
    (Hm7 : ∀ c ∈ C.pend, (classify c).1 = .m7 → (classify c).2 < C.n →
      (C.M.getD ((classify c).2 + 1) (0, 0)).2 = 0 ∨
      ∃ c' ∈ C.pend, ((classify c').1 = .m45 ∨ (classify c').1 = .m6) ∧ (classify c').2 = (classify c).2)
    (Hrm : ∀ v, v < C.n → rm.getD v false = true → ∃ c ∈ C.pend, (classify c).1 = .m7 ∧ (classify c).2 = v) :
    (∀ y : Val, y 0 = 1 → (∀ j, 1 ≤ j → 0 ≤ y j) → (∀ j, C.SL ≤ j → j < C.numCols → y j = 0) →
      Sol (C.artOut unf).1 y → csSem (cs0 ++ C.pend) (proj C.M y)) ∧
    (∀ x : Val, csSem (cs0 ++ C.pend) x →
      ∃ y : Val, y 0 = 1 ∧ (∀ j, 1 ≤ j → 0 ≤ y j) ∧ (∀ j, C.SL ≤ j → y j = 0) ∧ Sol (C.artOut unf).1 y ∧
        (∀ i, i < C.n → proj C.M y i = x i) ∧ NegZero C.M C.n x y) := by
  have hV1 := C.V1
  have hjV := C.hjV
  have hR0 := C.R0_eq Tm ncm hO
  constructor
  · intro y h0 hnn hz hsol
    obtain ⟨hold, htab⟩ := C.asm_sound unf hU y h0 hnn hz hsol
    rw [csSem_append]
    constructor
    · -- the processed constraints
      have hp0 : Pos0 ncm (trunc C.V y) := by
        refine ⟨by unfold trunc; rw [if_pos (by omega)]; exact h0, fun j hj => ?_, fun j hj => ?_⟩
        · unfold trunc; split
          · exact hnn j hj
          · exact le_refl _
        · unfold trunc; rw [if_neg (by rw [hO.v]; omega)]
      have hs0 : Sol Tm (trunc C.V y) := by
        intro r hr
        rw [← C.old_rowVal Tm ncm hO r hr, C.old_congr r (by rw [hR0]; exact hr) _ y
          (fun col hcol => by unfold trunc; rw [if_pos hcol])]
        exact hold r (by rw [hR0]; exact hr)
      have := hG.sound _ hp0 hs0
      rwa [proj_congr C.M C.nn C.n C.j C.hM (trunc C.V y) y
        (fun col hcol => by unfold trunc; rw [if_pos (by omega)])] at this
    · intro c hc
      by_cases ht : tabC c = true
      · exact htab c hc ht
      · rcases hcl : classify c with ⟨cls, v⟩
        have htc := tabC_of hcl
        cases cls <;> simp only [tabCls] at htc <;> try exact absurd htc ht
        · exact trivTrue_holds hcl _
        · rw [m7_holds_iff hcl]
          have hv : v < C.n := lt_of_lt_of_le (class_var_lt hcl rfl) (C.hlen c hc)
          have h7 := Hm7 c hc (by rw [hcl]) (by rw [hcl]; exact hv)
          rw [hcl] at h7
          simp only at h7
          rcases h7 with hm2 | ⟨c', hc', hcls', hv'⟩
          · obtain ⟨c1, -, -, -⟩ := C.hM.cols v hv
            unfold proj
            simp only [hm2, bne_self_eq_false, Bool.false_eq_true, if_false, sub_zero]
            exact hnn _ c1
          · rcases hcl' : classify c' with ⟨cls', v'⟩
            rw [hcl'] at hcls' hv'
            simp only at hcls' hv'
            subst hv'
            have htc' := tabC_of hcl'
            have hf : forcesNonneg cls' = true := by rcases hcls' with h | h <;> rw [h] <;> rfl
            have ht' : tabC c' = true := by rw [htc']; rcases hcls' with h | h <;> rw [h] <;> rfl
            exact nonneg_of_class hcl' hf _ (htab c' hc' ht')
  · intro x hx
    rw [csSem_append] at hx
    obtain ⟨hx0, hxp⟩ := hx
    have hxrm : ∀ v, v < C.n → rm.getD v false = true → 0 ≤ x v := by
      intro v hv hr
      obtain ⟨c, hc, h7, hcv⟩ := Hrm v hv hr
      rcases hcl : classify c with ⟨cls, v'⟩
      rw [hcl] at h7 hcv
      simp only at h7 hcv
      subst h7; subst hcv
      exact (m7_holds_iff hcl x).mp (hxp c hc)
    obtain ⟨y0, ⟨p1, p2, p3⟩, p4, p5, p6⟩ := hG.complete x hx0 hxrm
    have hold : ∀ r, r < C.R0 → rowVal (C.T0.getD r []) y0 = 0 := by
      intro r hr
      rw [C.old_rowVal Tm ncm hO r (by rw [← hR0]; exact hr)]
      exact p4 r (by rw [← hR0]; exact hr)
    have hy0V : ∀ col, C.V ≤ col → y0 col = 0 := fun col hcol => p3 col (by rw [← hO.v]; exact hcol)
    have hall : ∀ c ∈ C.pend, tabC c = true → c.holds (proj C.M y0) := by
      intro c hc _
      have := hxp c hc
      unfold ICon.holds at this ⊢
      rwa [dot_congr_lt c.coeffs (proj C.M y0) x (fun u hu => p5 u (lt_of_lt_of_le hu (C.hlen c hc)))]
    obtain ⟨y, y1, y2, y3, y4, y5⟩ := C.asm_complete unf hU y0 p1 p2 hold hy0V hall
    refine ⟨y, y2, y3, y4, y5, fun i hi => ?_, fun v hv hsplit hxv => ?_⟩
    · rw [proj_congr C.M C.nn C.n C.j C.hM y y0 (fun col hcol => y1 col (by omega))]
      exact p5 i hi
    · obtain ⟨-, c2, -, c4⟩ := C.hM.cols v hv
      have hhi : hiCol (C.M.getD (v+1) (0, 0)) = (C.M.getD (v+1) (0, 0)).2 := by
        unfold hiCol; rw [if_neg hsplit]
      rw [y1 _ (by rw [hhi] at c4; omega)]
      exact p6 v hv hsplit hxv

end GCtx

end PPLV.Solver.Pend
