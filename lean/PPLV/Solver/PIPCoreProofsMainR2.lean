import PPLV.Solver.PIPCoreProofsMainR
/-!
# C07 stage 2 — end-to-end for the repaired solver: the induction over the fuel
-/
namespace PPLV.PIPCore

theorem consHold_false_of_not {cons : List Row} {q : List Int} (h : ¬ consHold cons q = true) :
    consHold cons q = false := by
  cases hh : consHold cons q with
  | true => exact absurd hh h
  | false => rfl

theorem signAt_set_mixed {nd : SolNode} {sg : List RowSign} {q : List Int} (i : Nat)
    (h : SignAt { nd with sign := sg } q) : SignAt { nd with sign := sg.set i .mixed } q :=
  pointwise_set (P := fun k s => SignWeak nd.tab.den s (dot (mrow nd.tab.t k) q)) h trivial

theorem solveGo_correct {cc : Mat → Option Bool} (hcc : CCContract cc) (ctl : Ctl) (cfc : Bool) :
    ∀ (fuel : Nat) (entry : Bool) (nd : SolNode) (ctx : Mat) (r : Option CTree) (S : List Int → Prop) (n0 : Nat),
      solveGo cc ctl cfc fuel entry nd ctx = .done r → ((∃ qpre, S qpre) → InvR S n0 nd ctx) →
      ∀ qpre, S qpre → Claim nd (extendArts nd.arts qpre) (evalRes r qpre) := by
  have F := stepFacts
  intro fuel
  induction fuel with
  | zero =>
    intro entry nd ctx r S n0 h
    simp only [solveGo] at h
    exact absurd h (by simp)
  | succ fuel ih =>
    intro entry nd ctx r S n0 h hinv' qpre hq
    have hinvR := hinv' ⟨qpre, hq⟩
    have hinv := hinvR.base
    have hpvq := hinv.pvq qpre hq
    have hnt0 : 0 < nd.tab.nt := by have := hinv.nt_eq; have := hinv.n0_pos; omega
    -- the oracle refutes a row on the whole context: the row is negative at `q` (when the constraints hold)
    have refute : ∀ (row : Row), row.length = nd.tab.nt → cc (ctx ++ [row]) = some false →
        consHold nd.cons (extendArts nd.arts qpre) = true → dot row (extendArts nd.arts qpre) < 0 := by
      intro row hrl hcf hc
      by_contra hge
      have hall : ∀ r ∈ ctx ++ [row], r.length = nd.tab.nt := by
        intro r hr
        rcases List.mem_append.mp hr with hr | hr
        · exact hinv.ctx_len r hr
        · rw [List.mem_singleton.mp hr]; exact hrl
      have := (hcc _ nd.tab.nt false hall hnt0 hcf).mpr
        ⟨_, hpvq, (ctxSat_append ctx row _).mpr ⟨hinv.rel qpre hq hc, by omega⟩⟩
      exact absurd this (by simp)
    rw [solveGo] at h
    by_cases hent : (entry && cfc) = true
    · rw [if_pos hent] at h
      cases hc : cc ctx with
      | none => rw [hc] at h; exact absurd h (by simp)
      | some b =>
        rw [hc] at h
        cases b with
        | false =>
          simp only at h
          injection h with h
          subst h
          show Infeasible nd _
          by_cases hch : consHold nd.cons (extendArts nd.arts qpre) = true
          · exfalso
            have := (hcc ctx nd.tab.nt false hinv.ctx_len hnt0 hc).mpr ⟨_, hpvq, hinv.rel qpre hq hch⟩
            exact absurd this (by simp)
          · exact hinvR.inf qpre hq (consHold_false_of_not hch)
        | true =>
          simp only at h
          exact ih false nd ctx r S n0 h hinv' qpre hq
    · rw [if_neg hent] at h
      cases hsa : signAnalysis cc nd ctx with
      | none => rw [hsa] at h; exact absurd h (by simp)
      | some sf =>
        obtain ⟨sg, fs⟩ := sf
        rw [hsa] at h
        simp only at h
        have h1 : Inv' S n0 { nd with sign := sg } ctx := inv_sign hcc hinv hsa
        have h1R : InvR S n0 { nd with sign := sg } ctx :=
          ⟨h1, fun qp hqp hc => infeasible_congr (nd := nd) rfl rfl rfl rfl (hinvR.inf qp hqp hc)⟩
        have hrows : ({ nd with sign := sg } : SolNode).tab.t.length = nd.tab.s.length := hinv.wf.rows_eq.symm
        cases hneg : fs.neg with
        | some fneg =>
          rw [hneg] at h
          simp only at h
          obtain ⟨spF, spS⟩ := choosePivotR_spec ctl { nd with sign := sg } sg
            (rangeFrom fneg ({ nd with sign := sg } : SolNode).tab.t.length) none
            (fun i hi => by rw [hrows] at hi; exact rangeFrom_lt _ _ i hi)
            (fun a b hab => absurd hab (by simp))
          cases hcp : choosePivotR ctl { nd with sign := sg } sg
              (rangeFrom fneg ({ nd with sign := sg } : SolNode).tab.t.length) none with
          | nothing => rw [hcp] at h; simp only at h; exact absurd h (by simp)
          | found pi pj =>
            rw [hcp] at h
            simp only at h
            obtain ⟨hpi, hf⟩ := spF pi pj hcp
            obtain ⟨h2, _⟩ := inv_pivot F h1 hpi hf
            obtain ⟨hpj, hpos⟩ := flmc_positive _ pi pj h1.wf hpi hf
            have hpos' : 0 < mget ({ nd with sign := sg } : SolNode).tab.normalize.s pi pj :=
              (normalize_sign h1.wf pi pj).mpr hpos
            have hfe := fun qp (hqp : S qp) =>
              pivot_feasible h1.wf hpi hpj hpos' (h1.pvq qp hqp).1
            have hns : (pivot { nd with sign := sg } pi pj).tab.ns = nd.tab.ns :=
              (pivot_ns h1.wf hpi hpj hpos).1
            have h2R : InvR S n0 (pivot { nd with sign := sg } pi pj) ctx :=
              ⟨h2, fun qp hqp hc => by
                rintro ⟨v, hv⟩
                exact h1R.inf qp hqp hc ⟨v, (hfe qp hqp v).mpr hv⟩⟩
            have := ih false _ ctx r S n0 h (fun _ => h2R) qpre hq
            rw [pivot_arts] at this
            exact claim_of_feasible_iff (nd := nd) hns (fun v => (hfe qpre hq v).symm) this
          | stuck i =>
            rw [hcp] at h
            simp only at h
            obtain ⟨hi, hnp⟩ := spS i hcp
            have hrl : (mrow nd.tab.t i).length = nd.tab.nt :=
              Node.t_row_length hinv.wf (by rw [← hinv.wf.rows_eq]; exact hi)
            have hvb : viaBig { nd with sign := sg } i = false := by
              unfold viaBig
              show (match nd.big with | some b => rget (mrow nd.tab.t i) b != 0 | none => false) = false
              rw [hinv.big]
            rw [hvb] at h
            simp only [Bool.false_eq_true, if_false] at h
            cases hcr : ccRow cc ctx (mrow ({ nd with sign := sg } : SolNode).tab.t i) with
            | none => rw [hcr] at h; simp only at h; exact absurd h (by simp)
            | some b =>
              rw [hcr] at h
              cases b with
              | true =>
                simp only at h
                have h2R : InvR S n0 { nd with sign := sg.set i .mixed } ctx :=
                  ⟨{ h1 with
                      wf := wf_congr (nd := nd) rfl rfl rfl rfl rfl
                        (by show (sg.set i .mixed).length = _; rw [List.length_set]; exact signAnalysis_length hsa)
                        hinv.wf
                      lex := lexpos_of_same_tableau nd _ rfl rfl rfl hinv.lex
                      sgn := fun qp hqp hc => signAt_set_mixed i (h1.sgn qp hqp hc)
                      int := fun qp hqp => intInv_congr rfl rfl rfl rfl (hinv.int qp hqp) },
                   fun qp hqp hc => infeasible_congr (nd := nd) rfl rfl rfl rfl (hinvR.inf qp hqp hc)⟩
                have := ih false _ ctx r S n0 h (fun _ => h2R) qpre hq
                exact claim_congr (nd := nd) rfl rfl rfl rfl this
              | false =>
                simp only at h
                injection h with h
                subst h
                show Infeasible nd _
                by_cases hch : consHold nd.cons (extendArts nd.arts qpre) = true
                · have hlt := refute (mrow nd.tab.t i) hrl hcr hch
                  exact no_positive_pivot_infeasible hinv.wf hi hnp hpvq.1 hlt
                · exact hinvR.inf qpre hq (consHold_false_of_not hch)
        | none =>
          rw [hneg] at h
          simp only at h
          cases hmix : fs.mix with
          | some fmix =>
            rw [hmix] at h
            simp only at h
            cases hin : findINeg ({ nd with sign := sg } : SolNode).tab sg
                (rangeFrom fmix ({ nd with sign := sg } : SolNode).tab.t.length) none with
            | some ii =>
              obtain ⟨iNeg, sc⟩ := ii
              rw [hin] at h
              simp only at h
              have hm : signGet sg iNeg = .mixed :=
                findINeg_spec _ sg _ none iNeg sc (fun a b hab => absurd hab (by simp)) hin
              have hnp : hasPositive (mrow nd.tab.s iNeg) = false :=
                findINeg_spec2 _ sg _ none iNeg sc (fun a b hab => absurd hab (by simp)) hin
              have hiN : iNeg < nd.tab.t.length := by
                have := signGet_mixed_lt hm
                rw [signAnalysis_length hsa, hinv.wf.sign_len, hinv.wf.rows_eq] at this
                exact this
              have h2 := inv_taut hinv hsa h1 hm
              have h2R : InvR S n0 { nd with cons := addConstraint nd.cons (integralSimplification (mrow nd.tab.t iNeg)),
                                              sign := sg.set iNeg .positive }
                  (ctx ++ [integralSimplification (mrow nd.tab.t iNeg)]) := by
                refine ⟨h2, fun qp hqp hc => ?_⟩
                have hc' : consHold (nd.cons ++ [rowNormalizeAll (integralSimplification (mrow nd.tab.t iNeg))])
                    (extendArts nd.arts qp) = false := hc
                rw [consHold_append'] at hc'
                apply infeasible_congr (nd := nd) rfl rfl rfl rfl
                by_cases hold : consHold nd.cons (extendArts nd.arts qp) = true
                · rw [hold, Bool.true_and] at hc'
                  have hneg' : ¬ (0 ≤ dot (rowNormalizeAll (integralSimplification (mrow nd.tab.t iNeg)))
                      (extendArts nd.arts qp)) := by
                    intro hge
                    unfold consHold at hc'
                    simp [hge] at hc'
                  have hlt : dot (mrow nd.tab.t iNeg) (extendArts nd.arts qp) < 0 := by
                    have e := (mixed_row_equiv hinv.wf hsa hm hiN (hinv.pvq qp hqp)).2.1
                    by_contra hge
                    exact hneg' (e.mpr (by omega))
                  exact no_positive_pivot_infeasible hinv.wf (by rw [hinv.wf.rows_eq]; exact hiN) hnp
                    (hinv.pvq qp hqp).1 hlt
                · exact hinvR.inf qp hqp (consHold_false_of_not hold)
              have := ih false _ _ r S n0 h (fun _ => h2R) qpre hq
              exact claim_congr (nd := nd) rfl rfl rfl rfl this
            | none =>
              rw [hin] at h
              simp only at h
              cases hbi : findBestI ({ nd with sign := sg } : SolNode).tab sg
                  (rangeFrom fmix ({ nd with sign := sg } : SolNode).tab.t.length) none with
              | none => rw [hbi] at h; simp only at h; exact absurd h (by simp)
              | some bb =>
                obtain ⟨bestI, sc⟩ := bb
                rw [hbi] at h
                simp only at h
                have hm : signGet sg bestI = .mixed :=
                  findBestI_spec _ sg _ none bestI sc (fun a b hab => absurd hab (by simp)) hbi
                have hbi' : bestI < nd.tab.t.length := by
                  have := signGet_mixed_lt hm
                  rw [signAnalysis_length hsa, hinv.wf.sign_len, hinv.wf.rows_eq] at this
                  exact this
                generalize htT : integralSimplification (mrow nd.tab.t bestI) = tTest at h
                cases hst : solveGo cc ctl cfc fuel true
                    { nd with sign := sg, arts := [], cons := [] } (ctx ++ [tTest]) with
                | fuel => rw [hst] at h; simp only at h; exact absurd h (by simp)
                | done tNode =>
                  rw [hst] at h
                  simp only at h
                  cases hsf : solveGo cc ctl cfc fuel true
                      { nd with sign := sg, arts := [], cons := [] } (ctx ++ [complementAssign tTest 1]) with
                  | fuel => rw [hsf] at h; simp only at h; exact absurd h (by simp)
                  | done fNode =>
                    rw [hsf] at h
                    simp only at h
                    injection h with h
                    subst h
                    obtain ⟨e1, e2, e3⟩ := mixed_row_equiv hinv.wf hsa hm hbi' hpvq
                    obtain ⟨f1, f2⟩ := split_false_row_equiv hinv.wf hsa hm hbi' hpvq
                    rw [htT] at e1 e2 e3 f1 f2
                    have hqlen := hpvq.1
                    have heq := assemble_eval nd.arts nd.cons tTest (complementAssign tTest 1) tNode fNode
                      qpre (extendArts nd.arts qpre) rfl
                      (by rw [hqlen]; exact hinv.cons_len) (by rw [hqlen, e3]) (by rw [hqlen, f2])
                      (by rw [f1, e1]; omega)
                    show Claim nd _ (evalRes (assemble nd.arts nd.cons tTest (complementAssign tTest 1) tNode fNode) qpre)
                    rw [heq]
                    have childR : ∀ (test : Row) (htl : test.length = nd.tab.nt),
                        InvR (ChildSet S { nd with sign := sg } test) nd.tab.nt
                          { nd with sign := sg, arts := [], cons := [] } (ctx ++ [test]) := fun test htl =>
                      ⟨inv_child (test := test) h1 htl, fun qc _ hc => by
                        have : consHold ([] : List Row) (extendArts [] qc) = true := rfl
                        rw [this] at hc; exact absurd hc (by simp)⟩
                    by_cases hcs : consHold nd.cons (extendArts nd.arts qpre) = true
                    · rw [if_pos hcs]
                      by_cases hpos : 0 ≤ dot tTest (extendArts nd.arts qpre)
                      · rw [if_pos hpos]
                        have := ih true _ _ tNode _ _ hst (fun _ => childR tTest e3) (extendArts nd.arts qpre)
                          ⟨qpre, hq, rfl, hcs, hpos⟩
                        exact claim_congr (nd := nd) rfl rfl rfl rfl this
                      · rw [if_neg hpos]
                        have hposf : 0 ≤ dot (complementAssign tTest 1) (extendArts nd.arts qpre) := by
                          rw [f1]; have := e1.not.mp hpos; omega
                        have := ih true _ _ fNode _ _ hsf (fun _ => childR (complementAssign tTest 1) f2)
                          (extendArts nd.arts qpre) ⟨qpre, hq, rfl, hcs, hposf⟩
                        exact claim_congr (nd := nd) rfl rfl rfl rfl this
                    · rw [if_neg hcs]
                      exact hinvR.inf qpre hq (consHold_false_of_not hcs)
          | none =>
            rw [hmix] at h
            simp only at h
            have hns : ({ nd with sign := sg, tab := nd.tab.normalize } : SolNode).tab.ns = nd.tab.ns :=
              (normalize_shape nd.tab).2.2.1
            have hfeq : ∀ (qq : List Int) v, Feasible { nd with sign := sg, tab := nd.tab.normalize } v qq
                ↔ Feasible nd v qq := by
              intro qq v
              have hts := normalize_tabsat h1.wf v qq
              unfold Feasible
              rw [hts]
              exact Iff.rfl
            by_cases hsi : solutionIntegral { nd with sign := sg, tab := nd.tab.normalize } = true
            · rw [if_pos hsi] at h
              injection h with h
              subst h
              cases hev : evalRes (some (.sol { nd with sign := sg, tab := nd.tab.normalize })) qpre with
              | some x => exact final_step F hinv hsa h1 hneg hmix hsi hq hev
              | none =>
                show Infeasible nd _
                have hev' : (if consHold nd.cons (extendArts nd.arts qpre) then
                    some (SolNode.point { nd with sign := sg, tab := nd.tab.normalize } (extendArts nd.arts qpre))
                    else none) = none := hev
                by_cases hc : consHold nd.cons (extendArts nd.arts qpre) = true
                · rw [if_pos hc] at hev'; exact absurd hev' (by simp)
                · exact hinvR.inf qpre hq (consHold_false_of_not hc)
            · rw [if_neg hsi] at h
              have hn : Inv' S n0 { nd with sign := sg, tab := nd.tab.normalize } ctx :=
                { wf := normalize_wf h1.wf
                  lex := normalize_lexpos _ h1.lex
                  big := h1.big
                  arts := h1.arts
                  nt_eq := by
                    rw [show ({ nd with sign := sg, tab := nd.tab.normalize } : SolNode).tab.nt = nd.tab.nt from
                      (normalize_shape nd.tab).2.2.2]; exact h1.nt_eq
                  n0_pos := h1.n0_pos
                  ctx_len := by
                    rw [show ({ nd with sign := sg, tab := nd.tab.normalize } : SolNode).tab.nt = nd.tab.nt from
                      (normalize_shape nd.tab).2.2.2]; exact h1.ctx_len
                  cons_len := by
                    rw [show ({ nd with sign := sg, tab := nd.tab.normalize } : SolNode).tab.nt = nd.tab.nt from
                      (normalize_shape nd.tab).2.2.2]; exact h1.cons_len
                  pv := h1.pv
                  pvq := by
                    rw [show ({ nd with sign := sg, tab := nd.tab.normalize } : SolNode).tab.nt = nd.tab.nt from
                      (normalize_shape nd.tab).2.2.2]; exact h1.pvq
                  rel := h1.rel
                  sgn := fun qpre hq hc => (signAt_normalize h1.wf).mpr (h1.sgn qpre hq hc)
                  int := fun qpre hq => F.normalize_intinv h1.wf (h1.int qpre hq) }
              have hnR : InvR S n0 { nd with sign := sg, tab := nd.tab.normalize } ctx :=
                ⟨hn, fun qp hqp hc => by
                  rintro ⟨v, hv⟩
                  exact hinvR.inf qp hqp hc ⟨v, (hfeq _ v).mp hv⟩⟩
              -- the cut step
              obtain ⟨h2, _⟩ := inv_cut ctl hn hq
              have B := fun qp (hqp : S qp) =>
                generateCuts_step (n0 := n0) (qpre := qp) ctl
                  (nd := { nd with sign := sg, tab := nd.tab.normalize }) (ctx := ctx)
                  ⟨hn.wf, hn.nt_eq, hn.arts, hn.pv qp hqp, hn.pvq qp hqp, hn.ctx_len⟩
              have h2R : InvR S n0 (generateCuts ctl { nd with sign := sg, tab := nd.tab.normalize } ctx).1
                  (generateCuts ctl { nd with sign := sg, tab := nd.tab.normalize } ctx).2 := by
                refine ⟨h2, fun qp hqp hc => ?_⟩
                have hold : consHold nd.cons (extendArts nd.arts qp) = false := by
                  obtain ⟨new, _, _, h3⟩ := (B qp hqp).2.arts_ext
                  obtain ⟨e, he, _⟩ := extendArts_prefix new (extendArts nd.arts qp)
                  rw [(B qp hqp).2.cons_eq, h3, he] at hc
                  rw [← hc]
                  exact (consHold_prefix' _ _ _ (by rw [(hn.pvq qp hqp).1]; exact hn.cons_len)).symm
                rintro ⟨v', hv'⟩
                exact hnR.inf qp hqp hold ⟨v', (B qp hqp).2.feas_res v' hv'⟩
              have := ih false _ _ r S n0 h (fun _ => h2R) qpre hq
              have hcl : Claim { nd with sign := sg, tab := nd.tab.normalize } (extendArts nd.arts qpre)
                  (evalRes r qpre) := by
                cases hev : evalRes r qpre with
                | some x => rw [hev] at this; exact (B qpre hq).2.islexmin hn.wf x this
                | none => rw [hev] at this; exact (B qpre hq).2.infeasible this
              exact claim_of_feasible_iff (nd := nd) hns (fun v => hfeq _ v) hcl

end PPLV.PIPCore
