import PPLV.Solver.PIPCoreProofsSign2
import PPLV.Solver.PIPCoreSem2
/-!
# C07 core — tree family, part 1: the parameter vector grows by suffixes

`extendArts` only appends; a row that is not longer than the vector does not see what was appended
(`dot` stops at the shorter list).  These are the facts that let the constraints a node saved BEFORE its
children were solved (`cs`, the test row) be read at the children's longer vectors.
-/
namespace PPLV.PIPCore

/-! ### (T1) basics -/

theorem extendArts_append : ∀ (a b : List ArtP) (q : List Int),
    extendArts (a ++ b) q = extendArts b (extendArts a q)
  | [], _, _ => rfl
  | x :: a, b, q => by
    simp only [List.cons_append, extendArts]
    exact extendArts_append a b _

theorem extendArts_prefix : ∀ (a : List ArtP) (q : List Int),
    ∃ ext, extendArts a q = q ++ ext ∧ ext.length = a.length
  | [], q => ⟨[], by simp [extendArts]⟩
  | x :: a, q => by
    obtain ⟨e, he, hl⟩ := extendArts_prefix a (q ++ [Int.fdiv (dot x.num q) x.den])
    refine ⟨Int.fdiv (dot x.num q) x.den :: e, ?_, by simp [hl]⟩
    simp only [extendArts, he, List.append_assoc, List.singleton_append]

theorem extendArts_length (a : List ArtP) (q : List Int) :
    (extendArts a q).length = q.length + a.length := by
  obtain ⟨e, he, hl⟩ := extendArts_prefix a q
  rw [he, List.length_append, hl]

theorem dot_prefix : ∀ (r q e : List Int), r.length ≤ q.length → dot r (q ++ e) = dot r q
  | [], q, e, _ => by rw [dot_nil_left, dot_nil_left]
  | _ :: _, [], _, h => by simp at h
  | a :: r, x :: q, e, h => by
    rw [List.cons_append, dot_cons, dot_cons, dot_prefix r q e (by simpa using h)]

theorem consHold_nil (q : List Int) : consHold [] q = true := rfl

theorem consHold_cons (r : Row) (cons : List Row) (q : List Int) :
    consHold (r :: cons) q = (decide (0 ≤ dot r q) && consHold cons q) := by
  simp only [consHold, List.all_cons]

theorem consHold_append (a b : List Row) (q : List Int) :
    consHold (a ++ b) q = (consHold a q && consHold b q) := by
  simp only [consHold, List.all_append]

theorem consHold_singleton (r : Row) (q : List Int) : consHold [r] q = decide (0 ≤ dot r q) := by
  simp only [consHold, List.all_cons, List.all_nil, Bool.and_true]

theorem consHold_prefix {cons : List Row} {q : List Int} (e : List Int)
    (h : RowsLe cons q.length) : consHold cons (q ++ e) = consHold cons q := by
  induction cons with
  | nil => rfl
  | cons r rs ih =>
    rw [consHold_cons, consHold_cons, dot_prefix r q e (h r (by simp)),
      ih (fun r' hr' => h r' (by simp [hr']))]

theorem consHold_true_iff (cons : List Row) (q : List Int) :
    consHold cons q = true ↔ ∀ r ∈ cons, 0 ≤ dot r q := by
  simp only [consHold, List.all_eq_true, decide_eq_true_eq]

theorem rowsLe_append {a b : List Row} {n : Nat} (ha : RowsLe a n) (hb : RowsLe b n) :
    RowsLe (a ++ b) n := by
  intro r hr
  rcases List.mem_append.mp hr with h | h
  · exact ha r h
  · exact hb r h

theorem rowsLe_mono {a : List Row} {n m : Nat} (h : RowsLe a n) (hnm : n ≤ m) : RowsLe a m :=
  fun r hr => Nat.le_trans (h r hr) hnm

/-- the stored (strongly normalised) test row, read at a vector that extends `q` -/
theorem consHold_stored_test (test : Row) (q e : List Int) (h : test.length ≤ q.length) :
    consHold [rowNormalizeAll test] (q ++ e) = decide (0 ≤ dot test q) := by
  rw [consHold_singleton]
  have h1 : (0 ≤ dot (rowNormalizeAll test) (q ++ e)) ↔ (0 ≤ dot test q) := by
    rw [rowNormalizeAll_sign, dot_prefix test q e h]
  exact decide_eq_decide.mpr h1

/-- the constraint list `cs ++ child.cons ++ [test]` of a merged node, read at the child's vector -/
theorem consHold_merge (cs cons : List Row) (test : Row) (q e : List Int)
    (hcs : RowsLe cs q.length) (ht : test.length ≤ q.length) :
    consHold (addConstraint (cs ++ cons) test) (q ++ e)
      = (consHold cs q && decide (0 ≤ dot test q) && consHold cons (q ++ e)) := by
  unfold addConstraint
  rw [consHold_append, consHold_append, consHold_stored_test test q e ht, consHold_prefix e hcs]
  cases consHold cs q <;> cases decide (0 ≤ dot test q) <;> cases consHold cons (q ++ e) <;> rfl

/-! non-vacuity -/
example : extendArts [⟨[1, 1], 2⟩, ⟨[0, 0, 3], 2⟩] [1, 5] = [1, 5, 3, 4] := by decide
example : dot [2, -1] ([1, 5] ++ [7, 9]) = dot [2, -1] [1, 5] := by decide
example : consHold [[2, -1], [6]] [1, 5] = false ∧ consHold [[6, -1], [6]] [1, 5, 9] = true := by decide

end PPLV.PIPCore
