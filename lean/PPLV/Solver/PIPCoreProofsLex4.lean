import PPLV.Solver.PIPCoreProofsLex3
import Mathlib.Tactic.Linarith
import Mathlib.Tactic.Ring
/-!
# C07 stage 2 — the lexicographic invariant, part 4: `Tableau::scale`, `Tableau::normalize` and
`generate_cut` keep the columns lexico-non-negative.
-/
namespace PPLV.PIPCore

/-! ### sign-preserving changes of the full matrix -/

theorem Lex.lexnn_congr_sign (F F' : Nat → Row) (j : Nat) :
    ∀ l : List Nat,
      (∀ k ∈ l, (0 < rget (F k) j → 0 < rget (F' k) j) ∧ (rget (F k) j = 0 → rget (F' k) j = 0)) →
      LexNonnegCol (l.map F) j → LexNonnegCol (l.map F') j
  | [], _, _ => trivial
  | k :: l, he, hl => by
    obtain ⟨p1, p2⟩ := he k (by simp)
    have ih := Lex.lexnn_congr_sign F F' j l (fun k hk => he k (by simp [hk]))
    rcases hl with h | ⟨h, ht⟩
    · exact Or.inl (p1 h)
    · exact Or.inr ⟨p2 h, ih ht⟩

theorem Lex.lexnn_append (j : Nat) (r : Row) (hr : 0 ≤ rget r j) :
    ∀ rows : List Row, LexNonnegCol rows j → LexNonnegCol (rows ++ [r]) j
  | [], _ => by
    rcases lt_or_eq_of_le hr with h | h
    · exact Or.inl h
    · exact Or.inr ⟨h.symm, trivial⟩
  | r0 :: rs, hl => by
    rcases hl with h | ⟨h, ht⟩
    · exact Or.inl h
    · exact Or.inr ⟨h, Lex.lexnn_append j r hr rs ht⟩

theorem Lex.rget_map0 (f : Int → Int) (hf : f 0 = 0) (r : Row) (j : Nat) :
    rget (r.map f) j = f (rget r j) := by
  unfold rget
  rw [List.getD_eq_getElem?_getD, List.getD_eq_getElem?_getD, List.getElem?_map]
  cases r[j]? with
  | none => exact hf.symm
  | some a => rfl

theorem Lex.mrow_map (f : Row → Row) (hf : f [] = []) (m : Mat) (i : Nat) :
    mrow (m.map f) i = f (mrow m i) := by
  unfold mrow
  rw [List.getD_eq_getElem?_getD, List.getD_eq_getElem?_getD, List.getElem?_map]
  cases m[i]? with
  | none => exact hf.symm
  | some a => rfl

theorem Lex.rget_zero_or_mem (r : Row) (j : Nat) : rget r j = 0 ∨ rget r j ∈ r := by
  unfold rget
  rw [List.getD_eq_getElem?_getD]
  by_cases h : j < r.length
  · right; rw [List.getElem?_eq_getElem h]; exact List.getElem_mem h
  · left; rw [List.getElem?_eq_none (by omega)]; rfl

theorem Lex.mrow_nil_or_mem (m : Mat) (i : Nat) : mrow m i = [] ∨ mrow m i ∈ m := by
  unfold mrow
  rw [List.getD_eq_getElem?_getD]
  by_cases h : i < m.length
  · right; rw [List.getElem?_eq_getElem h]; exact List.getElem_mem h
  · left; rw [List.getElem?_eq_none (by omega)]; rfl

/-! ### `Tableau::scale` -/

/-- every entry of the full matrix is multiplied by the ratio -/
theorem Lex.fullRow_scale (nd : SolNode) (r : Int) (k j : Nat) (hj : j < nd.tab.ns) :
    rget (fullRow { nd with tab := nd.tab.scale r } k) j = rget (fullRow nd k) j * r := by
  unfold fullRow Tableau.scale
  dsimp only
  cases boolGet nd.basis k with
  | true =>
    simp only [if_true]
    rw [Lex.rget_unit _ _ _ _ hj, Lex.rget_unit _ _ _ _ hj]
    split <;> simp
  | false =>
    simp only [Bool.false_eq_true, if_false]
    rw [Lex.mrow_map _ rfl, Lex.rget_map0 _ (by simp)]

/-- **`scale_lexpos`** -/
theorem scale_lexpos (nd : SolNode) (r : Int) :
    LexPos nd → 0 < r → LexPos { nd with tab := nd.tab.scale r } := by
  intro hlp hr j hj
  have hj' : j < nd.tab.ns := hj
  refine Lex.lexnn_congr_sign (fullRow nd) _ j _ (fun k _ => ?_) (hlp j hj')
  rw [Lex.fullRow_scale nd r k j hj']
  exact ⟨fun h => mul_pos h hr, fun h => by rw [h, zero_mul]⟩

/-! ### `Tableau::normalize` -/

theorem Lex.gcdI_nonneg (a b : Int) : 0 ≤ gcdI a b := Int.natCast_nonneg _
theorem Lex.gcdI_dvd_left (a b : Int) : gcdI a b ∣ a := Int.gcd_dvd_left a b
theorem Lex.gcdI_dvd_right (a b : Int) : gcdI a b ∣ b := Int.gcd_dvd_right a b

theorem Lex.rowGcd_nonneg : ∀ (r : Row) (g : Int), 0 ≤ g → 0 ≤ rowGcd g r
  | [], _, h => h
  | a :: r, g, _ => Lex.rowGcd_nonneg r (gcdI g a) (Lex.gcdI_nonneg g a)

theorem Lex.rowGcd_dvd_init : ∀ (r : Row) (g : Int), rowGcd g r ∣ g
  | [], g => dvd_refl g
  | a :: r, g => dvd_trans (Lex.rowGcd_dvd_init r (gcdI g a)) (Lex.gcdI_dvd_left g a)

theorem Lex.rowGcd_dvd_mem : ∀ (r : Row) (g a : Int), a ∈ r → rowGcd g r ∣ a
  | [], _, _, h => by cases h
  | b :: r, g, a, h => by
    rcases List.mem_cons.mp h with h | h
    · subst h
      exact dvd_trans (Lex.rowGcd_dvd_init r (gcdI g a)) (Lex.gcdI_dvd_right g a)
    · exact Lex.rowGcd_dvd_mem r (gcdI g b) a h

theorem Lex.matGcd_nonneg : ∀ (m : Mat) (g : Int), 0 ≤ g → 0 ≤ m.foldl rowGcd g
  | [], _, h => h
  | r :: m, g, h => Lex.matGcd_nonneg m (rowGcd g r) (Lex.rowGcd_nonneg r g h)

theorem Lex.matGcd_dvd_init : ∀ (m : Mat) (g : Int), m.foldl rowGcd g ∣ g
  | [], g => dvd_refl g
  | r :: m, g => dvd_trans (Lex.matGcd_dvd_init m (rowGcd g r)) (Lex.rowGcd_dvd_init r g)

theorem Lex.matGcd_dvd_mem : ∀ (m : Mat) (g : Int) (r : Row) (a : Int), r ∈ m → a ∈ r →
    m.foldl rowGcd g ∣ a
  | [], _, _, _, h, _ => by cases h
  | r0 :: m, g, r, a, h, ha => by
    rcases List.mem_cons.mp h with h | h
    · subst h
      exact dvd_trans (Lex.matGcd_dvd_init m (rowGcd g r)) (Lex.rowGcd_dvd_mem r g a ha)
    · exact Lex.matGcd_dvd_mem m (rowGcd g r0) r a h ha

/-- the gcd `Tableau::normalize` divides by: non-negative, divides `den` and every entry of `s` -/
theorem Lex.normGcd_props (T : Tableau) :
    let g := T.t.foldl rowGcd (T.s.foldl rowGcd (gcdI T.den 0))
    0 ≤ g ∧ g ∣ T.den ∧ ∀ i j, g ∣ mget T.s i j := by
  intro g
  have h1 : g ∣ T.s.foldl rowGcd (gcdI T.den 0) := Lex.matGcd_dvd_init _ _
  refine ⟨Lex.matGcd_nonneg _ _ (Lex.matGcd_nonneg _ _ (Lex.gcdI_nonneg _ _)),
    dvd_trans h1 (dvd_trans (Lex.matGcd_dvd_init _ _) (Lex.gcdI_dvd_left _ _)), fun i j => ?_⟩
  unfold mget
  rcases Lex.mrow_nil_or_mem T.s i with h | h
  · rw [h, Lex.rget_nil]; exact dvd_zero g
  · rcases Lex.rget_zero_or_mem (mrow T.s i) j with h' | h'
    · rw [h']; exact dvd_zero g
    · exact dvd_trans h1 (Lex.matGcd_dvd_mem _ _ _ _ h h')

theorem Lex.sign_ediv (E g : Int) (hg : 0 ≤ g) (hd : g ∣ E) :
    (0 < E → 0 < E / g) ∧ (E = 0 → E / g = 0) :=
  ⟨fun h => Int.ediv_pos_of_pos_of_dvd h hg hd, fun h => by rw [h, Int.zero_ediv]⟩

/-- **`normalize_lexpos`** (no side condition is needed: the divisor is a non-negative common divisor of
    `den` and of all entries of `s`) -/
theorem normalize_lexpos (nd : SolNode) :
    LexPos nd → LexPos { nd with tab := nd.tab.normalize } := by
  intro hlp
  unfold Tableau.normalize
  by_cases h1 : nd.tab.den = 1
  · rw [if_pos h1]; exact hlp
  · rw [if_neg h1]
    dsimp only
    obtain ⟨g0, gd, gs⟩ := Lex.normGcd_props nd.tab
    by_cases h2 : nd.tab.t.foldl rowGcd (nd.tab.s.foldl rowGcd (gcdI nd.tab.den 0)) = 1
    · rw [if_pos h2]; exact hlp
    · rw [if_neg h2]
      intro j hj
      have hj' : j < nd.tab.ns := hj
      refine Lex.lexnn_congr_sign (fullRow nd) _ j _ (fun k _ => ?_) (hlp j hj')
      unfold fullRow
      dsimp only
      cases boolGet nd.basis k with
      | true =>
        simp only [if_true]
        rw [Lex.rget_unit _ _ _ _ hj', Lex.rget_unit _ _ _ _ hj']
        split
        · exact Lex.sign_ediv _ _ g0 gd
        · exact ⟨fun h => h, fun h => h⟩
      | false =>
        simp only [Bool.false_eq_true, if_false]
        rw [Lex.mrow_map _ rfl, Lex.rget_map0 (fun x => x / _) (Int.zero_ediv _)]
        exact Lex.sign_ediv _ _ g0 (gs _ j)

/-! ### `generate_cut` -/

theorem Lex.gc_s (nd : SolNode) (ctx : Mat) (index : Nat) :
    (generateCut nd ctx index).1.tab.s
      = nd.tab.s ++ [(mrow nd.tab.s index).map (fun a => posRem a nd.tab.den)] := by
  unfold generateCut
  dsimp only
  split
  · split <;> rfl
  · rfl

theorem Lex.gc_ns (nd : SolNode) (ctx : Mat) (index : Nat) :
    (generateCut nd ctx index).1.tab.ns = nd.tab.ns := by
  unfold generateCut
  dsimp only
  split
  · split <;> rfl
  · rfl

theorem Lex.gc_den (nd : SolNode) (ctx : Mat) (index : Nat) :
    (generateCut nd ctx index).1.tab.den = nd.tab.den := by
  unfold generateCut
  dsimp only
  split
  · split <;> rfl
  · rfl

theorem Lex.gc_basis (nd : SolNode) (ctx : Mat) (index : Nat) :
    (generateCut nd ctx index).1.basis = nd.basis ++ [false] := by
  unfold generateCut
  dsimp only
  split
  · split <;> rfl
  · rfl

theorem Lex.gc_mapping (nd : SolNode) (ctx : Mat) (index : Nat) :
    (generateCut nd ctx index).1.mapping = nd.mapping ++ [nd.tab.t.length] := by
  unfold generateCut
  dsimp only
  split
  · split <;> rfl
  · rfl

theorem Lex.natGet_append_lt (l : List Nat) (x k : Nat) (h : k < l.length) :
    natGet (l ++ [x]) k = natGet l k := by
  unfold natGet
  rw [List.getD_eq_getElem?_getD, List.getD_eq_getElem?_getD, List.getElem?_append_left h]

theorem Lex.natGet_append_len (l : List Nat) (x : Nat) : natGet (l ++ [x]) l.length = x := by
  unfold natGet
  rw [List.getD_eq_getElem?_getD, List.getElem?_append_right (le_refl _)]
  simp

theorem Lex.boolGet_append_lt (l : List Bool) (x : Bool) (k : Nat) (h : k < l.length) :
    boolGet (l ++ [x]) k = boolGet l k := by
  unfold boolGet
  rw [List.getD_eq_getElem?_getD, List.getD_eq_getElem?_getD, List.getElem?_append_left h]

theorem Lex.boolGet_append_len (l : List Bool) (x : Bool) : boolGet (l ++ [x]) l.length = x := by
  unfold boolGet
  rw [List.getD_eq_getElem?_getD, List.getElem?_append_right (le_refl _)]
  simp

theorem Lex.mrow_append_lt (m : Mat) (r : Row) (i : Nat) (h : i < m.length) :
    mrow (m ++ [r]) i = mrow m i := by
  unfold mrow
  rw [List.getD_eq_getElem?_getD, List.getD_eq_getElem?_getD, List.getElem?_append_left h]

theorem Lex.mrow_append_len (m : Mat) (r : Row) : mrow (m ++ [r]) m.length = r := by
  unfold mrow
  rw [List.getD_eq_getElem?_getD, List.getElem?_append_right (le_refl _)]
  simp

/-- the full rows of the old variables are unchanged by a cut -/
theorem Lex.gc_fullRow_old (nd : SolNode) (ctx : Mat) (index : Nat) (hwf : WF nd) (k : Nat)
    (hk : k < nd.mapping.length) :
    fullRow (generateCut nd ctx index).1 k = fullRow nd k := by
  unfold fullRow
  rw [Lex.gc_s, Lex.gc_ns, Lex.gc_den, Lex.gc_basis, Lex.gc_mapping,
    Lex.boolGet_append_lt _ _ _ (by rw [hwf.basis_len]; exact hk), Lex.natGet_append_lt _ _ _ hk]
  cases hb : boolGet nd.basis k with
  | true => rfl
  | false =>
    simp only [Bool.false_eq_true, if_false]
    exact Lex.mrow_append_lt _ _ _ ((hwf.map_ok k hk).2 hb).1

/-- the new variable is the last one and its full row is the cut row `posRem(s[index][j], den)` -/
theorem Lex.gc_fullRow_new (nd : SolNode) (ctx : Mat) (index : Nat) (hwf : WF nd) :
    fullRow (generateCut nd ctx index).1 nd.mapping.length
      = (mrow nd.tab.s index).map (fun a => posRem a nd.tab.den) := by
  unfold fullRow
  rw [Lex.gc_s, Lex.gc_basis, Lex.gc_mapping, ← hwf.basis_len, Lex.boolGet_append_len, hwf.basis_len,
    Lex.natGet_append_len, ← hwf.rows_eq]
  simp only [Bool.false_eq_true, if_false]
  exact Lex.mrow_append_len _ _

/-- **`generateCut_lexpos`**: the cut row is appended at the end of the variable order and its
    `s`-entries are remainders modulo the positive denominator -/
theorem generateCut_lexpos (nd : SolNode) (ctx : Mat) (index : Nat) :
    WF nd → LexPos nd → LexPos (generateCut nd ctx index).1 := by
  intro hwf hlp j hj
  rw [Lex.gc_ns] at hj
  unfold fullRows
  rw [Lex.gc_mapping, List.length_append, List.length_singleton, List.range_succ, List.map_append,
    List.map_singleton, Lex.gc_fullRow_new nd ctx index hwf]
  have hold : (List.range nd.mapping.length).map (fullRow (generateCut nd ctx index).1)
      = (List.range nd.mapping.length).map (fullRow nd) :=
    List.map_congr_left (fun k hk => Lex.gc_fullRow_old nd ctx index hwf k (List.mem_range.mp hk))
  rw [hold]
  apply Lex.lexnn_append j _ _ _ (hlp j hj)
  rw [Lex.rget_map0 (fun a => posRem a nd.tab.den) (Int.zero_emod _)]
  exact Int.emod_nonneg _ (by have := hwf.den_pos; omega)

/-! ### non-vacuity -/

example : LexPos Lex.exNodeB ∧ LexPos { Lex.exNodeB with tab := Lex.exNodeB.tab.scale 3 } :=
  ⟨by decide, scale_lexpos Lex.exNodeB 3 (by decide) (by decide)⟩

/-- `Lex.exNodeA` has den 2 and all entries even: `normalize` really divides -/
example : LexPos Lex.exNodeA ∧ Lex.exNodeA.tab.normalize ≠ Lex.exNodeA.tab
    ∧ LexPos { Lex.exNodeA with tab := Lex.exNodeA.tab.normalize } :=
  ⟨by decide, by decide, normalize_lexpos Lex.exNodeA (by decide)⟩

/-- a node with a non-integral basic solution (`2 * x2 = x0 + 3 * x1 + 1`): the cut on row 0 -/
def Lex.exNodeD : SolNode :=
  { tab := { s := [[1, 3]], t := [[1]], den := 2, ns := 2, nt := 1 }
    basis := [true, true, false], mapping := [0, 1, 0], varRow := [2], varColumn := [0, 1]
    sign := [.positive], big := none, arts := [], cons := [] }

theorem Lex.exNodeD_wf : WF Lex.exNodeD :=
  ⟨by decide, by decide, by decide, by decide, by decide, by decide, by decide, by decide, by decide,
   by decide, by decide, by decide⟩

example : WF Lex.exNodeD ∧ LexPos Lex.exNodeD
    ∧ (generateCut Lex.exNodeD [] 0).1.tab.s = [[1, 3], [1, 1]]
    ∧ (generateCut Lex.exNodeD [] 0).1.mapping = [0, 1, 0, 1]
    ∧ LexPos (generateCut Lex.exNodeD [] 0).1 :=
  ⟨Lex.exNodeD_wf, by decide, by decide, by decide,
   generateCut_lexpos Lex.exNodeD [] 0 Lex.exNodeD_wf (by decide)⟩

end PPLV.PIPCore
