import PPLV.Solver.PIPCoreProofsDefs
import Mathlib.Tactic.Linarith
import Mathlib.Tactic.Ring
/-!
# C07 stage 2 — the cut step, part 1: arithmetic of a Gomory cut, `extendArts`, `ArtP.mk'`, `findArt`
(helpers in `PPLV.PIPCore.Cut`).
-/
namespace PPLV.PIPCore

namespace Cut

/-- (`PPLV.PIPCore.extendArts_append` of the tree family, `PIPCoreProofsTree.lean`, is the same statement;
    this copy keeps the cut family independent of it) -/
theorem extendArts_append : ∀ (as bs : List ArtP) (q : List Int),
    extendArts (as ++ bs) q = extendArts bs (extendArts as q)
  | [], _, _ => rfl
  | a :: as, bs, q => by
    show extendArts (as ++ bs) _ = extendArts bs (extendArts as _)
    exact extendArts_append as bs _

/-- `cut_t` entry: `mod - denom` if `mod ≠ 0` -/
def cutf (d a : Int) : Int := if posRem a d ≠ 0 then posRem a d - d else 0
/-- numerator entry of the artificial parameter: `denom - mod` if `mod ≠ 0` -/
def negmod (d a : Int) : Int := if posRem a d ≠ 0 then d - posRem a d else 0

theorem posRem_eq (a d : Int) : posRem a d = a - d * (a / d) := Int.emod_def a d

theorem negmod_eq (d a : Int) : negmod d a = - cutf d a := by
  unfold negmod cutf; split <;> ring

theorem cutf_eq (d a : Int) :
    cutf d a = a - d * (a / d + if posRem a d ≠ 0 then 1 else 0) := by
  unfold cutf
  split
  · rw [posRem_eq]; ring
  · rename_i h
    have h0 : posRem a d = 0 := by
      by_contra hne; exact h hne
    rw [posRem_eq] at h0
    have : d * (a / d + 0) = a := by rw [add_zero]; linarith
    rw [this]; ring

theorem negmod_nonneg (d a : Int) (hd : 0 < d) : 0 ≤ negmod d a := by
  unfold negmod
  have h2 : posRem a d < d := Int.emod_lt_of_pos a hd
  split <;> omega

theorem negmod_lt (d a : Int) (hd : 0 < d) : negmod d a < d := by
  unfold negmod
  have h1 : 0 ≤ posRem a d := Int.emod_nonneg a (by omega)
  split <;> omega

theorem negmod_zero (d a : Int) (h : a % d = 0) : negmod d a = 0 := by
  unfold negmod
  have : posRem a d = 0 := h
  rw [this]; simp

/-! ### `dot` -/

theorem dot_append_single : ∀ (a b : List Int) (x y : Int), a.length = b.length →
    dot (a ++ [x]) (b ++ [y]) = dot a b + x * y
  | [], [], x, y, _ => by simp [dot]
  | [], _ :: _, _, _, h => by simp at h
  | _ :: _, [], _, _, h => by simp at h
  | a :: as, b :: bs, x, y, h => by
    show a * b + dot (as ++ [x]) (bs ++ [y]) = a * b + dot as bs + x * y
    rw [dot_append_single as bs x y (by simpa using h)]; ring

theorem dot_map_sub (d : Int) (g : Int → Int) : ∀ (r z : List Int),
    dot (r.map (fun a => a - d * g a)) z = dot r z - d * dot (r.map g) z
  | [], z => by simp [dot_nil_left]
  | _ :: _, [] => by simp [dot_nil_right]
  | a :: as, b :: bs => by
    simp only [List.map_cons, dot_cons]
    rw [dot_map_sub d g as bs]; ring

theorem dot_cutS (d : Int) (r z : List Int) :
    dot (r.map (fun a => posRem a d)) z = dot r z - d * dot (r.map (fun a => a / d)) z := by
  rw [← dot_map_sub d (fun a => a / d) r z]
  congr 1
  exact List.map_congr_left (fun a _ => posRem_eq a d)

theorem dot_cutf (d : Int) (r z : List Int) :
    dot (r.map (cutf d)) z
      = dot r z - d * dot (r.map (fun a => a / d + if posRem a d ≠ 0 then 1 else 0)) z := by
  rw [← dot_map_sub d _ r z]
  congr 1
  exact List.map_congr_left (fun a _ => cutf_eq d a)

theorem dot_negmod (d : Int) (r z : List Int) :
    dot (r.map (negmod d)) z = - dot (r.map (cutf d)) z := by
  rw [← dot_neg, List.map_map]
  congr 1
  exact List.map_congr_left (fun a _ => negmod_eq d a)

/-- the Gomory argument over the integers: the source row `d * x = rowS·y + rowT·q` with `x` integer
    makes `cutS·y - (e mod d)` a multiple of `d`, `e = apNum·q` -/
theorem gomory_int (d x : Int) (rowS yz rowT q : List Int)
    (hrow : d * x = dot rowS yz + dot rowT q) :
    ∃ z, dot (rowS.map (fun a => posRem a d)) yz - (dot (rowT.map (negmod d)) q) % d = d * z := by
  refine ⟨x - dot (rowS.map (fun a => a / d)) yz
    - dot (rowT.map (fun a => a / d + if posRem a d ≠ 0 then 1 else 0)) q
    + (dot (rowT.map (negmod d)) q) / d, ?_⟩
  rw [Int.emod_def, dot_cutS]
  have h2 := dot_cutf d rowT q
  have h3 := dot_negmod d rowT q
  generalize dot (rowT.map (negmod d)) q / d = fl at *
  linarith

theorem gomory_nonneg (d A e z : Int) (hd : 0 < d) (hA : 0 ≤ A) (h : A - e % d = d * z) : 0 ≤ z := by
  have h2 : e % d < d := Int.emod_lt_of_pos e hd
  by_contra hz
  have : d * z ≤ d * (-1) := mul_le_mul_of_nonneg_left (by omega) (le_of_lt hd)
  linarith

/-! ### `ArtP.mk'` -/

theorem mk'_cases (num : Row) (d : Int) (hd : 0 < d) :
    ArtP.mk' num d = ⟨num, d⟩ ∨
    ∃ g : Int, 0 < g ∧ g ∣ d ∧ (∀ a ∈ num, g ∣ a) ∧ ArtP.mk' num d = ⟨num.map (· / g), d / g⟩ := by
  unfold ArtP.mk'
  by_cases h1 : rowGcd 0 num = 1
  · left; simp only [h1, if_true]
  · simp only [h1, if_false]
    by_cases h0 : rowGcd 0 num = 0
    · simp only [h0, if_true]
      by_cases hd1 : d = 1
      · left; simp only [hd1, if_true]
      · right
        refine ⟨d, hd, dvd_refl d, fun a ha => ?_, by simp only [hd1, if_false]⟩
        rw [rowGcd_zero_all_zero h0 a ha]; exact dvd_zero d
    · simp only [h0, if_false]
      by_cases hg1 : gcdI d (rowGcd 0 num) = 1
      · left; simp only [hg1, if_true]
      · right
        refine ⟨gcdI d (rowGcd 0 num), ?_, gcdI_dvd_left _ _, fun a ha => ?_,
          by simp only [hg1, if_false]⟩
        · rcases lt_or_eq_of_le (gcdI_nonneg d (rowGcd 0 num)) with h | h
          · exact h
          · have := gcdI_dvd_left d (rowGcd 0 num)
            rw [← h] at this
            have := zero_dvd_iff.mp this
            omega
        · exact dvd_trans (gcdI_dvd_right _ _) ((rowGcd_dvd num 0).2 a ha)

theorem mk'_length (num : Row) (d : Int) (hd : 0 < d) : (ArtP.mk' num d).num.length = num.length := by
  rcases mk'_cases num d hd with h | ⟨g, _, _, _, h⟩ <;> rw [h]
  simp

theorem mk'_den_pos (num : Row) (d : Int) (hd : 0 < d) : 0 < (ArtP.mk' num d).den := by
  rcases mk'_cases num d hd with h | ⟨g, hg, hgd, _, h⟩ <;> rw [h]
  · exact hd
  · exact Int.ediv_pos_of_pos_of_dvd hd (le_of_lt hg) hgd

theorem mk'_nonneg (num : Row) (d : Int) (hd : 0 < d) (hn : ∀ a ∈ num, 0 ≤ a) :
    ∀ a ∈ (ArtP.mk' num d).num, 0 ≤ a := by
  rcases mk'_cases num d hd with h | ⟨g, hg, _, _, h⟩ <;> rw [h]
  · exact hn
  · intro a ha
    obtain ⟨b, hb, rfl⟩ := List.mem_map.mp ha
    exact Int.ediv_nonneg (hn b hb) (le_of_lt hg)

/-- dividing numerator and denominator by a common positive factor does not change the floor -/
theorem mk'_fdiv (num : Row) (d : Int) (hd : 0 < d) (q : List Int) :
    Int.fdiv (dot (ArtP.mk' num d).num q) (ArtP.mk' num d).den = dot num q / d := by
  rcases mk'_cases num d hd with h | ⟨g, hg, hgd, hgn, h⟩ <;> rw [h]
  · exact Int.fdiv_eq_ediv_of_nonneg _ (le_of_lt hd)
  · show Int.fdiv (dot (num.map (· / g)) q) (d / g) = _
    have hdg : 0 < d / g := Int.ediv_pos_of_pos_of_dvd hd (le_of_lt hg) hgd
    rw [Int.fdiv_eq_ediv_of_nonneg _ (le_of_lt hdg)]
    have e1 : dot num q = g * dot (num.map (· / g)) q := dot_map_div g (by omega) num q hgn
    obtain ⟨d', rfl⟩ := hgd
    rw [e1, Int.mul_ediv_cancel_left _ (by omega : g ≠ 0), Int.mul_ediv_mul_of_pos _ _ hg]

/-! ### `findArt` never succeeds inside a node -/

theorem findArt_none (arts : List ArtP) (ap : ArtP)
    (h : ∀ j, j < arts.length → (arts.getD j default).num.length ≠ ap.num.length) :
    findArt arts ap = none := by
  unfold findArt
  simp only []
  rw [List.find?_eq_none]
  intro j hj
  have hj' : j < arts.length := by
    unfold rowsDown at hj
    exact List.mem_range.mp (List.mem_reverse.mp hj)
  intro hb
  have : arts.getD j default = ap := eq_of_beq hb
  exact h j hj' (by rw [this])

/-! ### parameter vectors -/

theorem paramVec_snoc (n : Nat) (q : List Int) (x : Int) (hq : ParamVec n q) (hx : 0 ≤ x) :
    ParamVec (n + 1) (q ++ [x]) := by
  obtain ⟨h1, h2, h3⟩ := hq
  refine ⟨by simp [h1], ?_, ?_⟩
  · cases q with
    | nil => simp at h2
    | cons a as => simpa using h2
  · intro y hy
    rcases List.mem_append.mp hy with hy | hy
    · exact h3 y hy
    · simp only [List.mem_singleton] at hy; rw [hy]; exact hx

theorem paramVec_pos (n : Nat) (q : List Int) (hq : ParamVec n q) : 0 < n := by
  obtain ⟨h1, h2, _⟩ := hq
  cases q with
  | nil => simp at h2
  | cons a as => simp at h1; omega

end Cut
end PPLV.PIPCore
