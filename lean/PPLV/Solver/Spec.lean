import PPLV.Solver.MIPProofs
import Mathlib.Data.Rat.Floor

/-!
# C06 — the statement of the property, at the level of sets, and the bridge to the model

`Feasible P x`: `x` satisfies every row of `P` and is integral on the designated variables.
`IsUnfeasible`, `IsUnbounded`, `IsOptimum v`: the three statuses exactly as the property text
defines them, in the optimisation mode of `P`.  `IsAnswer P a` reads an `Answer` as such a claim
(`unknownUnboundedIntVar` is never an answer).
-/
namespace PPLV.Solver
open PPLV.Lin

def Feasible (P : Problem) (x : Val) : Prop := Sat P.cs x ∧ ∀ i ∈ P.ints, ∃ z : Int, x i = (z : Rat)

/-- the relaxation: same data, no integrality requirement -/
def Problem.relaxed (P : Problem) : Problem := { P with ints := [] }

/-- `a` is a strictly better objective value than `b` in the mode of `P` -/
def Better (P : Problem) (a b : Rat) : Prop := if P.maximize then b < a else a < b

def IsUnfeasible (P : Problem) : Prop := ¬ ∃ x, Feasible P x

def IsUnbounded (P : Problem) : Prop :=
  (∃ x, Feasible P x) ∧ ∀ M : Rat, ∃ x, Feasible P x ∧ Better P (P.objVal x) M

def IsOptimum (P : Problem) (v : Rat) : Prop :=
  (∃ x, Feasible P x ∧ P.objVal x = v) ∧ ∀ x, Feasible P x → ¬ Better P (P.objVal x) v

def IsAnswer (P : Problem) : Answer → Prop
  | .unfeasible => IsUnfeasible P
  | .unbounded => IsUnbounded P
  | .optimum v => IsOptimum P v
  | .unknownUnboundedIntVar => False

/-- rows over variables `< n`, non-strict; objective and integer variables inside the space -/
def Problem.WF (P : Problem) : Prop :=
  PPLV.Lin.WF P.n P.cs ∧ NonStrict P.cs ∧ P.obj.coeffs.length ≤ P.n ∧ ∀ i ∈ P.ints, i < P.n

theorem Problem.wfB_iff (P : Problem) : P.wfB = true ↔ P.WF := by
  unfold Problem.wfB Problem.WF
  simp only [Bool.and_eq_true, PPLV.Lin.wfB_iff, nonStrictB_iff, decide_eq_true_eq, List.all_eq_true]
  tauto

/-- every integer variable stays between two rationals on the relaxation -/
def IntVarsBoundedInRelaxation (P : Problem) : Prop := ∀ i ∈ P.ints, BoundedVar (sem P.cs) i

theorem mem_mipSet (P : Problem) (x : Val) : x ∈ mipSet P.ints P.cs ↔ Feasible P x := Iff.rfl

theorem linObj_maxObj (P : Problem) (x : Val) :
    linObj P.maxObj.1 P.maxObj.2 x = if P.maximize then P.objVal x else - P.objVal x := by
  unfold Problem.maxObj linObj Problem.objVal
  by_cases h : P.maximize = true
  · simp [h]
  · simp only [h, Bool.false_eq_true, if_false, negL]
    rw [dot_map_neg]; push_cast; ring

/-- a correct answer of the equivalent maximisation problem, read back in the mode of `P` -/
theorem isAnswer_of_correct (P : Problem) (a : Answer)
    (h : CorrectS (mipSet P.ints P.cs) (linObj P.maxObj.1 P.maxObj.2) a) (hk : a.isKnown = true) :
    IsAnswer P (P.back a) := by
  have hobj := linObj_maxObj P
  by_cases hm : P.maximize = true
  · simp only [hm, if_true] at hobj
    simp only [Problem.back, hm, if_true]
    cases a with
    | unfeasible =>
      simp only [CorrectS] at h
      rintro ⟨x, hx⟩
      have : x ∈ mipSet P.ints P.cs := hx
      rw [h] at this; exact this
    | unbounded =>
      obtain ⟨⟨x, hx⟩, hM⟩ := h
      refine ⟨⟨x, hx⟩, fun M => ?_⟩
      obtain ⟨y, hy, hlt⟩ := hM M
      refine ⟨y, hy, ?_⟩
      simp only [Better, hm, if_true]; rw [← hobj]; exact hlt
    | optimum v =>
      obtain ⟨⟨x, hx, hxv⟩, hle⟩ := h
      refine ⟨⟨x, hx, by rw [← hobj]; exact hxv⟩, fun y hy => ?_⟩
      simp only [Better, hm, if_true]
      have := hle y hy; rw [hobj] at this; exact not_lt.mpr this
    | unknownUnboundedIntVar => cases hk
  · simp only [hm, Bool.false_eq_true, if_false] at hobj
    simp only [Problem.back, hm, Bool.false_eq_true, if_false]
    cases a with
    | unfeasible =>
      simp only [CorrectS] at h
      rintro ⟨x, hx⟩
      have : x ∈ mipSet P.ints P.cs := hx
      rw [h] at this; exact this
    | unbounded =>
      obtain ⟨⟨x, hx⟩, hM⟩ := h
      refine ⟨⟨x, hx⟩, fun M => ?_⟩
      obtain ⟨y, hy, hlt⟩ := hM (-M)
      refine ⟨y, hy, ?_⟩
      simp only [Better, hm, Bool.false_eq_true, if_false]
      rw [hobj] at hlt; linarith
    | optimum v =>
      obtain ⟨⟨x, hx, hxv⟩, hle⟩ := h
      refine ⟨⟨x, hx, ?_⟩, fun y hy => ?_⟩
      · rw [hobj] at hxv; linarith
      · simp only [Better, hm, Bool.false_eq_true, if_false]
        have := hle y hy; rw [hobj] at this
        intro hlt; linarith
    | unknownUnboundedIntVar => cases hk

/-- the three statuses exclude each other and the optimum is unique -/
theorem isAnswer_unique (P : Problem) (a b : Answer) (ha : IsAnswer P a) (hb : IsAnswer P b) : a = b := by
  have hcmp : ∀ u v : Rat, ¬ Better P u v → ¬ Better P v u → u = v := by
    intro u v h1 h2
    unfold Better at h1 h2
    by_cases hm : P.maximize = true
    · simp only [hm, if_true] at h1 h2; exact le_antisymm (not_lt.mp h1) (not_lt.mp h2)
    · simp only [hm, Bool.false_eq_true, if_false] at h1 h2; exact le_antisymm (not_lt.mp h2) (not_lt.mp h1)
  cases a <;> cases b <;> simp only [IsAnswer] at ha hb <;> try rfl
  · exact absurd hb.1 ha
  · exact absurd ⟨_, hb.1.choose_spec.1⟩ ha
  · exact absurd ha.1 hb
  · rename_i v
    obtain ⟨x, hx, hlt⟩ := ha.2 v
    exact absurd hlt (hb.2 x hx)
  · exact absurd ⟨_, ha.1.choose_spec.1⟩ hb
  · rename_i v
    obtain ⟨x, hx, hlt⟩ := hb.2 v
    exact absurd hlt (ha.2 x hx)
  · rename_i v w
    obtain ⟨⟨x, hx, hxv⟩, hv⟩ := ha
    obtain ⟨⟨y, hy, hyw⟩, hw⟩ := hb
    have h1 := hv y hy; rw [hyw] at h1
    have h2 := hw x hx; rw [hxv] at h2
    rw [hcmp v w h2 h1]

theorem maxObj_length (P : Problem) (h : P.obj.coeffs.length ≤ P.n) : P.maxObj.1.length ≤ P.n := by
  unfold Problem.maxObj; split <;> simp [negL, h]

/-- whenever the reference answers, its answer is the true one -/
theorem mipRef_isAnswer (P : Problem) (hwf : P.WF) (hk : (mipRef P).isKnown = true) : IsAnswer P (mipRef P) := by
  obtain ⟨h1, h2, h3, h4⟩ := hwf
  have hc := mipMax_correct P.n P.maxObj.1 P.maxObj.2 (maxObj_length P h3) P.ints P.cs h1 h2 h4
  have hk' : (mipMax P.n P.maxObj.1 P.maxObj.2 P.ints P.cs).isKnown = true := by
    unfold mipRef Problem.back at hk
    split at hk
    · exact hk
    · revert hk; cases mipMax P.n P.maxObj.1 P.maxObj.2 P.ints P.cs <;> simp [Answer.neg, Answer.isKnown]
  exact isAnswer_of_correct P _ hc hk'

theorem mipRef_known (P : Problem) (hwf : P.WF) (hb : IntVarsBoundedInRelaxation P) :
    (mipRef P).isKnown = true := by
  obtain ⟨h1, h2, -, h4⟩ := hwf
  have := mipMax_known P.n P.maxObj.1 P.maxObj.2 P.ints P.cs h1 h2 h4 hb
  unfold mipRef Problem.back
  split
  · exact this
  · revert this; cases mipMax P.n P.maxObj.1 P.maxObj.2 P.ints P.cs <;> simp [Answer.neg, Answer.isKnown]

theorem lpAnswer_eq (P : Problem) : lpAnswer P = mipRef P.relaxed := by
  unfold lpAnswer mipRef Problem.relaxed Problem.back Problem.maxObj
  simp only [mipMax]

theorem relaxed_WF (P : Problem) (h : P.WF) : P.relaxed.WF :=
  ⟨h.1, h.2.1, h.2.2.1, fun i hi => by cases hi⟩

theorem feasible_relaxed (P : Problem) (x : Val) : Feasible P.relaxed x ↔ x ∈ sem P.cs := by
  unfold Feasible Problem.relaxed sem
  simp

/-! ### witnesses -/

theorem den_one_iff (q : Rat) : (q.den == 1) = true ↔ ∃ z : Int, q = (z : Rat) := by
  rw [beq_iff_eq]
  constructor
  · intro h; exact ⟨q.num, ((Rat.den_eq_one_iff q).mp h).symm⟩
  · rintro ⟨z, rfl⟩; exact Rat.den_intCast z

theorem checkFeasible_iff (P : Problem) (x : Pt) : checkFeasible P x = true ↔ Feasible P x.val := by
  unfold checkFeasible Feasible Sat
  simp only [Bool.and_eq_true, List.all_eq_true, conHolds_iff, den_one_iff]

/-! ### a feasible point and an improving recession direction: the MIP is unbounded -/

/-- finitely many rationals have a common positive multiplier making them integers -/
theorem common_multiplier (is : List Nat) (d : Val) :
    ∃ q : Nat, 0 < q ∧ ∀ i ∈ is, ∃ z : Int, (q : Rat) * d i = (z : Rat) := by
  induction is with
  | nil => exact ⟨1, Nat.one_pos, fun i hi => by cases hi⟩
  | cons j js ih =>
    obtain ⟨q, hq, hz⟩ := ih
    refine ⟨(d j).den * q, Nat.mul_pos (d j).den_pos hq, ?_⟩
    intro i hi
    rcases List.mem_cons.mp hi with rfl | hi
    · refine ⟨(d i).num * q, ?_⟩
      have h := Rat.den_mul_eq_num (d i)
      push_cast
      calc ((d i).den : Rat) * (q : Rat) * d i = (q : Rat) * (((d i).den : Rat) * d i) := by ring
        _ = (q : Rat) * ((d i).num : Rat) := by rw [h]
        _ = ((d i).num : Rat) * (q : Rat) := by ring
    · obtain ⟨z, hzz⟩ := hz i hi
      refine ⟨(d j).den * z, ?_⟩
      push_cast
      calc ((d j).den : Rat) * (q : Rat) * d i = ((d j).den : Rat) * ((q : Rat) * d i) := by ring
        _ = ((d j).den : Rat) * (z : Rat) := by rw [hzz]

theorem unbounded_max_of_point_and_ray (e : List Int) (k : Int) (is : List Nat) (cs : List Con) (x d : Val)
    (hx : x ∈ mipSet is cs) (hd : Sat (rayRows e cs) d) : IsUnboundedS (mipSet is cs) (linObj e k) := by
  obtain ⟨q, hq, hz⟩ := common_multiplier is d
  have hed : 1 ≤ dot e d := by
    have := hd (geRow e (-1)) (by simp [rayRows])
    simp only [Con.sat, geRow, Con.eval, Bool.false_eq_true, if_false] at this
    push_cast at this; linarith
  have hrow : ∀ c ∈ cs, 0 ≤ dot c.coeffs d := by
    intro c hc
    have := hd ⟨c.coeffs, 0, false⟩ (by
      simp only [rayRows, List.mem_cons, List.mem_map]
      exact Or.inr ⟨c, hc, rfl⟩)
    simpa [Con.sat, Con.eval] using this
  have hmove : ∀ t : Nat, (fun i => x i + ((t : Rat) * (q : Rat)) * d i) ∈ mipSet is cs := by
    intro t
    have ht : (0 : Rat) ≤ (t : Rat) * (q : Rat) := by positivity
    refine ⟨fun c hc => ?_, fun i hi => ?_⟩
    · have h1 := hx.1 c hc
      have h2 := mul_nonneg ht (hrow c hc)
      unfold Con.sat Con.eval at *
      rw [dot_axpy]
      split at h1 <;> simp only [*, if_true, Bool.false_eq_true, if_false] <;> linarith
    · obtain ⟨z0, hz0⟩ := hx.2 i hi
      obtain ⟨z, hzz⟩ := hz i hi
      refine ⟨z0 + t * z, ?_⟩
      push_cast
      rw [hz0, mul_assoc, hzz]
  refine ⟨⟨x, hx⟩, fun M => ?_⟩
  let t : Nat := Nat.ceil (max 0 (M - linObj e k x + 1))
  refine ⟨_, hmove t, ?_⟩
  have h1 : max 0 (M - linObj e k x + 1) ≤ (t : Rat) := Nat.le_ceil _
  have h2 : M - linObj e k x + 1 ≤ (t : Rat) := le_trans (le_max_right _ _) h1
  have hq1 : (1 : Rat) ≤ (q : Rat) := by exact_mod_cast hq
  have ht0 : (0 : Rat) ≤ (t : Rat) := by positivity
  have h3 : (t : Rat) ≤ (t : Rat) * (q : Rat) * dot e d := by nlinarith [mul_nonneg ht0 (sub_nonneg.mpr hq1), mul_nonneg (mul_nonneg ht0 (le_trans zero_le_one hq1)) (sub_nonneg.mpr hed)]
  unfold linObj at *
  rw [dot_axpy]
  linarith

/-! ### the window restriction -/

theorem Sat_windowRows (B : Int) (i : Nat) (x : Val) :
    Sat (windowRows B i) x ↔ -(B : Rat) ≤ x i ∧ x i ≤ (B : Rat) := by
  unfold windowRows Sat
  simp only [List.mem_cons, List.not_mem_nil, or_false, forall_eq_or_imp, forall_eq, geRow, Con.sat,
    Con.eval, dot_unitRow, Bool.false_eq_true, if_false]
  push_cast
  constructor <;> rintro ⟨h1, h2⟩ <;> constructor <;> linarith

theorem feasible_of_window (P : Problem) (B : Int) (x : Val) (h : Feasible (P.withWindow B) x) : Feasible P x := by
  obtain ⟨hs, hi⟩ := h
  exact ⟨((Sat_append _ _ x).mp hs).2, hi⟩

theorem withWindow_WF (P : Problem) (B : Int) (h : P.WF) : (P.withWindow B).WF := by
  obtain ⟨h1, h2, h3, h4⟩ := h
  refine ⟨?_, ?_, h3, h4⟩
  · intro c hc
    show c.coeffs.length ≤ P.n
    rcases List.mem_append.mp hc with hc | hc
    · obtain ⟨i, hi, hci⟩ := List.mem_flatMap.mp hc
      have := h4 i hi
      simp only [windowRows, geRow, List.mem_cons, List.not_mem_nil, or_false] at hci
      rcases hci with rfl | rfl <;> simp only [unitRow_length] <;> omega
    · exact h1 c hc
  · intro c hc
    rcases List.mem_append.mp hc with hc | hc
    · obtain ⟨i, -, hci⟩ := List.mem_flatMap.mp hc
      simp only [windowRows, geRow, List.mem_cons, List.not_mem_nil, or_false] at hci
      rcases hci with rfl | rfl <;> rfl
    · exact h2 c hc

/-! ### histories -/

theorem foldl_apply_filter (ops : List Op) (P : Problem) :
    ops.foldl Problem.apply P = (ops.filter Op.isMutator).foldl Problem.apply P := by
  induction ops generalizing P with
  | nil => rfl
  | cons o ops ih =>
    cases o <;> simp [List.filter, Op.isMutator, Problem.apply, ih]

end PPLV.Solver
