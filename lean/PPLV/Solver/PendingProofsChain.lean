import PPLV.Solver.PendingProofsE2E4

/-!
# C06 stage 3 — the chain first phase → `erase_artificials` → second phase, for ANY call of the set-up

`ppc_chain`: whatever state `process_pending_constraints` was called on (fresh or incremental), IF its set-up
hands over `(s', b, e)` with `Phase1Start s' b e` (canonical feasible tableau, cost row = −Σ artificials),
`SetupGood cs n s' b` (the non-negative solutions with artificials 0 are the encodings of the solution set) and a
mapping laid out before the artificial columns, THEN the rest of `process_pending_constraints` answers correctly:
UNSATISFIABLE with an empty solution set, or SATISFIABLE with a `Ready` state.
`lp_incremental_chain`: … and `second_phase()` then gives the right status, witness and optimum.
For a fresh problem the three hypotheses are theorems (`setup_phase1_canon`, `tableau_setup_solutions`,
`setup_phase1_extra`); for an incremental call they are the remaining gap.
-/
namespace PPLV.Solver.Pend
open PPLV.Lin PPLV.Solver PPLV.Solver.Tab

theorem ppc_chain (fc : Chooser) (hfc : ChooserOK fc) (fuel : Nat) (cs : List ICon) (n : Nat)
    (s' : LPState) (b e : Nat) (hP : Phase1Start s' b e) (hG : SetupGood cs n s' b)
    (hmap : ∃ nn j, MapOK s'.mapping nn n j ∧ 1 + j ≤ artStart b s'.numCols)
    (ok : Bool) (t : Tab) (hrun : computeSimplexWith (chooserOf fc s'.pricing) fuel s'.tab = some (ok, t)) :
    ((ppcFinish s' b e ok t).status = .UNSATISFIABLE ∧ ∀ x, ¬ csSem cs x) ∨
    ((ppcFinish s' b e ok t).status = .SATISFIABLE ∧ Ready cs n (ppcFinish s' b e ok t) ∧
      (ppcFinish s' b e ok t).obj = s'.obj ∧ (ppcFinish s' b e ok t).maximize = s'.maximize ∧
      (ppcFinish s' b e ok t).pricing = s'.pricing ∧
      (ppcFinish s' b e ok t).external_space_dim = s'.external_space_dim) := by
  obtain ⟨nn, jj, hMok, hjj⟩ := hmap
  obtain ⟨g1, g2⟩ := hG
  obtain ⟨hok, hCt, hlen, hsol, v1, v2⟩ :=
    phase1_verdict _ (chooserOf_ok fc hfc s'.pricing) fuel s' b e hP ok t hrun
  subst hok
  by_cases h0 : t.cost.get 0 = 0
  swap
  · left
    refine ⟨ppcFinish_unsat s' b e true t (Or.inr h0), fun x hx => ?_⟩
    obtain ⟨y, hy, -⟩ := g2 x hx
    exact v1 h0 y hy
  · right
    obtain ⟨hbasic, hart⟩ := v2 h0
    rw [ppcFinish_sat s' b e t h0]
    have hn2 : 2 ≤ s'.numCols := by rw [← hlen]; exact hCt.len2
    by_cases hb : b = 0
    · -- no artificial column: the tableau of the first phase is kept
      have hb' : (b != 0) = false := by rw [hb]; rfl
      rw [hb']
      simp only [Bool.false_eq_true, if_false]
      have hstart : artStart b s'.numCols = s'.numCols - 1 := by unfold artStart; rw [hb]; simp
      rw [hstart] at hjj
      refine ⟨by first | rfl | trivial, ⟨?_, ⟨nn, jj, hMok, by simp only [computeGenerator, LPState.withTab]; rw [hlen]; exact hjj⟩, ?_, ?_⟩, rfl, rfl, rfl, rfl⟩
      · simp only [computeGenerator, LPState.withTab]; exact hCt.toTB
      · intro y hy hsy
        simp only [computeGenerator, LPState.withTab] at hy hsy ⊢
        rw [hlen] at hy
        apply g1 y ⟨hy.1, hy.2.1, fun j h1 _ => hy.2.2 j (by rw [hstart] at h1; exact h1), (hsol y).mp hsy⟩
      · intro x hx
        obtain ⟨y, ⟨y1, y2, y3, y4⟩, y5⟩ := g2 x hx
        simp only [computeGenerator, LPState.withTab]
        rw [hlen]
        have hz : ∀ j, j < s'.numCols → s'.numCols ≤ j → y j = 0 := fun j h1 h2 => by omega
        refine ⟨trunc s'.numCols y, ⟨?_, fun j hj => ?_, fun j hj => ?_⟩, ?_, fun i hi => ?_⟩
        · unfold trunc; rw [if_pos (by omega)]; exact y1
        · unfold trunc; split
          · exact y2 j hj
          · exact le_refl _
        · unfold trunc; split
          · exact y3 j (by rw [hstart]; exact hj) (by assumption)
          · rfl
        · apply (hsol _).mpr
          intro i hi
          unfold rowVal
          rw [dot_trunc _ _ _ (fun j h1 h2 => by
            have := hP.canon.rowLen i hi
            have e2 : s'.tab.cost.length = s'.numCols := hP.len
            change (s'.tableau.getD i []).length = s'.tab.cost.length at this
            omega)]
          exact y4 i hi
        · rw [← y5 i hi]
          have := proj_congr s'.mapping nn n jj hMok (trunc s'.numCols y) y (fun col hcol => by
            unfold trunc; rw [if_pos (by omega)])
          rw [this]
    · -- the artificial columns are erased
      have hb' : (b != 0) = true := bne_iff_ne.mpr hb
      rw [hb']
      simp only [if_true]
      obtain ⟨hb1, hbe⟩ := hP.bpos hb
      have hA := hart hb
      have hstart : artStart b s'.numCols = b := by unfold artStart; rw [if_pos hb]
      rw [hstart] at hjj
      have hnumc : (s'.withTab t).numCols = s'.numCols := rfl
      rw [hnumc]
      obtain ⟨e1, e2, e3⟩ := erase_artificials_valid b e s'.numCols t hb1 hbe hP.eEnd hA
      obtain ⟨e4, e5⟩ := eraseArtificials_canonTB b e s'.numCols t hb1 hbe hP.eEnd
        (by rw [← hlen]; exact hCt.toTB) hA hlen
      refine ⟨by first | rfl | trivial, ⟨?_, ⟨nn, jj, hMok, by simp only [computeGenerator, LPState.withTab]; rw [e5]; omega⟩, ?_, ?_⟩, rfl, rfl, rfl, rfl⟩
      · simp only [computeGenerator, LPState.withTab]; rw [e5]; exact e4
      · intro y hy hsy
        simp only [computeGenerator, LPState.withTab] at hy hsy ⊢
        rw [e5] at hy
        have hno : NoArt b y := fun j hj => hy.2.2 j (by omega)
        have hs1 := (hsol y).mp ((e3 y hno).mp hsy)
        exact g1 y ⟨hy.1, hy.2.1, fun j h1 _ => hno j (by rw [hstart] at h1; exact h1), hs1⟩
      · intro x hx
        obtain ⟨y, ⟨y1, y2, y3, y4⟩, y5⟩ := g2 x hx
        simp only [computeGenerator, LPState.withTab]
        rw [e5]
        have hno : NoArt b (trunc b y) := fun j hj => by unfold trunc; rw [if_neg (by omega)]
        refine ⟨trunc b y, ⟨?_, fun j hj => ?_, fun j hj => hno j (by omega)⟩, ?_, fun i hi => ?_⟩
        · unfold trunc; rw [if_pos (by omega)]; exact y1
        · unfold trunc; split
          · exact y2 j hj
          · exact le_refl _
        · apply (e3 _ hno).mpr
          apply (hsol _).mpr
          intro i hi
          unfold rowVal
          rw [dot_trunc _ _ _ (fun j h1 h2 => by
            have := hP.canon.rowLen i hi
            have e2' : s'.tab.cost.length = s'.numCols := hP.len
            change (s'.tableau.getD i []).length = s'.tab.cost.length at this
            exact y3 j (by rw [hstart]; exact h2) (by omega))]
          exact y4 i hi
        · rw [← y5 i hi]
          have := proj_congr s'.mapping nn n jj hMok (trunc b y) y (fun col hcol => by
            unfold trunc; rw [if_pos (by omega)])
          rw [this]


/-! ### the data the set-up keeps, for any state -/

theorem mergeSplitVariable_keeps (s : LPState) (v : Nat) :
    (mergeSplitVariable s v).1.obj = s.obj ∧ (mergeSplitVariable s v).1.maximize = s.maximize ∧
    (mergeSplitVariable s v).1.external_space_dim = s.external_space_dim ∧
    (mergeSplitVariable s v).1.input_cs = s.input_cs ∧ (mergeSplitVariable s v).1.pricing = s.pricing := by
  unfold mergeSplitVariable
  simp

theorem ppcMerge_keeps (s : LPState) (l : List Bool) :
    (ppcMerge s l).1.obj = s.obj ∧ (ppcMerge s l).1.maximize = s.maximize ∧
    (ppcMerge s l).1.external_space_dim = s.external_space_dim ∧
    (ppcMerge s l).1.input_cs = s.input_cs ∧ (ppcMerge s l).1.pricing = s.pricing := by
  unfold ppcMerge
  apply revFold_inv (fun (_ : Nat) (acc : LPState × List Nat) =>
    acc.1.obj = s.obj ∧ acc.1.maximize = s.maximize ∧ acc.1.external_space_dim = s.external_space_dim ∧
    acc.1.input_cs = s.input_cs ∧ acc.1.pricing = s.pricing)
  · exact ⟨rfl, rfl, rfl, rfl, rfl⟩
  · intro i _ acc ⟨a1, a2, a3, a4, a5⟩
    simp only
    split
    · obtain ⟨k1, k2, k3, k4, k5⟩ := mergeSplitVariable_keeps acc.1 i
      exact ⟨by rw [k1, a1], by rw [k2, a2], by rw [k3, a3], by rw [k4, a4], by rw [k5, a5]⟩
    · exact ⟨a1, a2, a3, a4, a5⟩

theorem ppcTrivial_phase1 (s0 s' : LPState) (b e b' e' : Nat) (h : ppcTrivial s0 b e = .phase1 s' b' e') : s' = s0 := by
  unfold ppcTrivial at h
  split at h
  · cases h
  · split at h
    · split at h <;> cases h
    · simp only [Setup.phase1.injEq] at h; exact h.1.symm

theorem ppcFill_phase1 (s : LPState) (unf : List Nat) (p : Parsed) (isSat : List Bool) (M : List (Nat × Nat))
    (av : Nat) (s' : LPState) (b e : Nat) (h : ppcFill s unf p isSat M av = .phase1 s' b e) :
    s'.obj = s.obj ∧ s'.maximize = s.maximize ∧ s'.external_space_dim = s.external_space_dim ∧
    s'.input_cs = s.input_cs ∧ s'.pricing = s.pricing := by
  unfold ppcFill at h
  simp only at h
  have := ppcTrivial_phase1 _ _ _ _ _ _ h
  subst this
  exact ⟨rfl, rfl, rfl, rfl, rfl⟩

/-- the set-up never touches the objective, the mode, the pricing, the space dimension or `input_cs` -/
theorem ppcSetup_keeps (s s' : LPState) (b e : Nat) (h : ppcSetup s = .phase1 s' b e) :
    s'.obj = s.obj ∧ s'.maximize = s.maximize ∧ s'.external_space_dim = s.external_space_dim ∧
    s'.input_cs = s.input_cs ∧ s'.pricing = s.pricing := by
  unfold ppcSetup at h
  have hrec : (ppcRecompute s).1.obj = s.obj ∧ (ppcRecompute s).1.maximize = s.maximize ∧
      (ppcRecompute s).1.external_space_dim = s.external_space_dim ∧
      (ppcRecompute s).1.input_cs = s.input_cs ∧ (ppcRecompute s).1.pricing = s.pricing := by
    unfold ppcRecompute
    split
    · split <;> exact ⟨rfl, rfl, rfl, rfl, rfl⟩
    · exact ⟨rfl, rfl, rfl, rfl, rfl⟩
  rcases hr : ppcRecompute s with ⟨s1, lg⟩
  rw [hr] at h hrec
  simp only at h hrec
  split at h
  · cases h
  · rename_i p _
    unfold ppcBuild at h
    simp only at h
    obtain ⟨m1, m2, m3, m4, m5⟩ := ppcMerge_keeps s1 p.isRemerge
    obtain ⟨f1, f2, f3, f4, f5⟩ := ppcFill_phase1 _ _ _ _ _ _ _ _ _ h
    exact ⟨by rw [f1, m1, hrec.1], by rw [f2, m2, hrec.2.1], by rw [f3, m3, hrec.2.2.1],
      by rw [f4, m4, hrec.2.2.2.1], by rw [f5, m5, hrec.2.2.2.2]⟩

/-- **the LP answers after ANY call of `process_pending_constraints` whose set-up satisfies the three hand-over
    facts** (for an incremental call these facts are the remaining gap; for a fresh one they are theorems) -/
theorem lp_incremental_chain (fc : Chooser) (hfc : ChooserOK fc) (f1 f2 : Nat) (s sR s' : LPState) (b e : Nat)
    (hsetup : ppcSetup s = .phase1 s' b e) (hP : Phase1Start s' b e)
    (hG : SetupGood s.input_cs s.external_space_dim s' b)
    (hmap : ∃ nn j, MapOK s'.mapping nn s.external_space_dim j ∧ 1 + j ≤ artStart b s'.numCols)
    (hn : 0 < s.external_space_dim) (hl : ∀ c ∈ s.input_cs, c.coeffs.length ≤ s.external_space_dim)
    (hobj : s.obj.coeffs.length ≤ s.external_space_dim)
    (h : processPendingConstraints fc f1 s = some sR) :
    (sR.status = .UNSATISFIABLE ∧ ∀ x, ¬ csSem s.input_cs x) ∨
    (sR.status = .SATISFIABLE ∧ (∃ x, csSem s.input_cs x) ∧
      ∀ s2, secondPhase fc f2 sR = some s2 → LPClaims s.input_cs s.problem s2) := by
  obtain ⟨k1, k2, k3, -, -⟩ := ppcSetup_keeps s s' b e hsetup
  unfold processPendingConstraints at h
  rw [hsetup] at h
  simp only at h
  cases hrun : computeSimplexWith (chooserOf fc s'.pricing) f1 s'.tab with
  | none => rw [hrun] at h; cases h
  | some res =>
    obtain ⟨ok, t⟩ := res
    rw [hrun] at h
    simp only [Option.some.injEq] at h
    subst h
    rcases ppc_chain fc hfc f1 s.input_cs s.external_space_dim s' b e hP hG hmap ok t hrun with
      ⟨a1, a2⟩ | ⟨a1, a2, a3, a4, -, a6⟩
    · exact Or.inl ⟨a1, a2⟩
    · right
      refine ⟨a1, ready_exists _ _ _ a2, fun s2 h2 => ?_⟩
      exact secondPhase_fresh_witness fc hfc f2 s _ s2 a1 a2 (by rw [a3, k1]) (by rw [a4, k2]) (by rw [a6, k3])
        hn hl hobj h2

end PPLV.Solver.Pend
