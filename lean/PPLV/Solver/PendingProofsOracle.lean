import PPLV.Solver.PendingOracle
import PPLV.Solver.PendingProofsE2E4
import PPLV.Solver.BBSound

/-!
# C06 stage 3 — the oracle induced by the model is correct (`BB.OracleOK`)
-/
namespace PPLV.Solver.Pend
open PPLV.Lin PPLV.Solver PPLV.Solver.Tab

/-- adding the rows of a node keeps the problem untouched and appends them to `input_cs` -/
theorem foldl_addConstraint (rows : List BB.InRow) (s : LPState) (h : Untouched s) :
    Untouched (rows.foldl (fun s r => addConstraint s (rowToICon r)) s) ∧
    (rows.foldl (fun s r => addConstraint s (rowToICon r)) s).input_cs = s.input_cs ++ rows.map rowToICon ∧
    (rows.foldl (fun s r => addConstraint s (rowToICon r)) s).external_space_dim = s.external_space_dim ∧
    (rows.foldl (fun s r => addConstraint s (rowToICon r)) s).last_generator = s.last_generator ∧
    (rows.foldl (fun s r => addConstraint s (rowToICon r)) s).obj = s.obj ∧
    (rows.foldl (fun s r => addConstraint s (rowToICon r)) s).maximize = s.maximize := by
  induction rows generalizing s with
  | nil => exact ⟨h, by simp, rfl, rfl, rfl, rfl⟩
  | cons r rows ih =>
    simp only [List.foldl_cons]
    have hu := (mutators_untouched s h (rowToICon r) ⟨[], 0⟩ true 0 .TEXTBOOK).1
    obtain ⟨i1, i2, i3, i4, i5, i6⟩ := ih (addConstraint s (rowToICon r)) hu
    have e : (addConstraint s (rowToICon r)).input_cs = s.input_cs ++ [rowToICon r] ∧
        (addConstraint s (rowToICon r)).external_space_dim = s.external_space_dim ∧
        (addConstraint s (rowToICon r)).last_generator = s.last_generator ∧
        (addConstraint s (rowToICon r)).obj = s.obj ∧ (addConstraint s (rowToICon r)).maximize = s.maximize := by
      unfold addConstraint; rw [h.part]; simp
    refine ⟨i1, by rw [i2, e.1]; simp, by rw [i3, e.2.1], by rw [i4, e.2.2.1], by rw [i5, e.2.2.2.1],
      by rw [i6, e.2.2.2.2]⟩

theorem nodeState_spec (N : BB.Node) :
    Untouched (nodeState N) ∧ (nodeState N).input_cs = N.rows.map rowToICon ∧
    (nodeState N).external_space_dim = N.n ∧ (nodeState N).last_generator = ⟨[], 1⟩ ∧
    (nodeState N).obj = N.obj ∧ (nodeState N).maximize = N.maximize := by
  obtain ⟨f1, f2, f3, f4, f5, f6⟩ := foldl_addConstraint N.rows (LPState.new N.n) (new_untouched N.n)
  set s0 := N.rows.foldl (fun s r => addConstraint s (rowToICon r)) (LPState.new N.n) with hs0
  have hu1 := (mutators_untouched s0 f1 ⟨[], 0, false⟩ N.obj N.maximize 0 .TEXTBOOK).2.1
  have g1 : (setObjectiveFunction s0 N.obj).input_cs = s0.input_cs ∧
      (setObjectiveFunction s0 N.obj).external_space_dim = s0.external_space_dim ∧
      (setObjectiveFunction s0 N.obj).last_generator = s0.last_generator ∧
      (setObjectiveFunction s0 N.obj).obj = N.obj ∧ (setObjectiveFunction s0 N.obj).maximize = s0.maximize := by
    unfold setObjectiveFunction; rw [f1.part]; simp
  set s1 := setObjectiveFunction s0 N.obj with hs1
  have hu2 := (mutators_untouched s1 hu1 ⟨[], 0, false⟩ N.obj N.maximize 0 .TEXTBOOK).2.2.1
  have g2 : (setOptimizationMode s1 N.maximize).input_cs = s1.input_cs ∧
      (setOptimizationMode s1 N.maximize).external_space_dim = s1.external_space_dim ∧
      (setOptimizationMode s1 N.maximize).last_generator = s1.last_generator ∧
      (setOptimizationMode s1 N.maximize).obj = s1.obj ∧ (setOptimizationMode s1 N.maximize).maximize = N.maximize := by
    unfold setOptimizationMode
    by_cases hm : s1.maximize = N.maximize
    · simp [hm]
    · have : (s1.maximize != N.maximize) = true := bne_iff_ne.mpr hm
      rw [this, hu1.part]; simp
  unfold nodeState
  rw [← hs0, ← hs1]
  refine ⟨hu2, by rw [g2.1, g1.1, f2]; simp [LPState.new], by rw [g2.2.1, g1.2.1, f3]; rfl,
    by rw [g2.2.2.1, g1.2.2.1, f4]; rfl, by rw [g2.2.2.2.1, g1.2.2.2.1], g2.2.2.2.2⟩

theorem rowToICon_toCons (r : BB.InRow) : (rowToICon r).toCons = r.toCons := rfl

/-- **the oracle induced by the model answers correctly** -/
theorem modelOracle_ok (fc : Chooser) (hfc : ChooserOK fc) (fuel : Nat) : BB.OracleOK (modelOracle fc fuel) := by
  intro N r hwf hr
  obtain ⟨w1, w2, w3, w4⟩ := hwf
  obtain ⟨n1, n2, n3, n4, n5, n6⟩ := nodeState_spec N
  unfold modelOracle at hr
  by_cases hn0 : N.n = 0
  · simp [hn0] at hr
  have hb : (N.n == 0) = false := by simpa using hn0
  rw [hb] at hr
  simp only [Bool.false_eq_true, if_false] at hr
  -- the reference problems coincide
  have hcs : N.toProblem.cs = (nodeState N).problem.cs := by
    unfold BB.Node.toProblem LPState.problem
    simp only
    rw [n2, List.flatMap_map]
    rfl
  have hlen : ∀ c ∈ (nodeState N).input_cs, c.coeffs.length ≤ (nodeState N).external_space_dim := by
    intro c hc
    rw [n2] at hc
    obtain ⟨row, hrow, rfl⟩ := List.mem_map.mp hc
    rw [n3]
    have hmem : (⟨row.coeffs, row.k, false⟩ : Con) ∈ N.toProblem.cs := by
      unfold BB.Node.toProblem
      simp only
      apply List.mem_flatMap.mpr
      refine ⟨row, hrow, ?_⟩
      unfold BB.InRow.toCons
      split <;> simp [eqRows, geRow]
    exact w1 _ hmem
  have hobjlen : (nodeState N).obj.coeffs.length ≤ (nodeState N).external_space_dim := by
    rw [n5, n3]; exact w3
  have hnpos : 0 < (nodeState N).external_space_dim := by rw [n3]; omega
  have hbetter : ∀ a b, Better N.toProblem a b ↔ Better (nodeState N).problem a b := by
    intro a b
    unfold Better BB.Node.toProblem LPState.problem
    simp only
    rw [n6]
  have hobjv : ∀ x, N.toProblem.objVal x = (nodeState N).problem.objVal x := by
    intro x
    unfold Problem.objVal BB.Node.toProblem LPState.problem
    simp only
    rw [n5]
  cases h1 : isLpSatisfiable fc fuel (nodeState N) with
  | none => rw [h1] at hr; cases hr
  | some res =>
    obtain ⟨s1, b⟩ := res
    rw [h1] at hr
    obtain ⟨c1, c2⟩ := lp_fresh_correct fc hfc fuel fuel (nodeState N) s1 b n1 n4 hnpos hlen hobjlen h1
    have hsem : ∀ x, Sat N.toProblem.cs x ↔ csSem (nodeState N).input_cs x := by
      intro x; rw [hcs]; exact (csSem_iff_Sat _ x).symm
    cases b with
    | false =>
      simp only [Option.some.injEq] at hr
      subst hr
      intro x hx
      exact c1 rfl x ((hsem x).mp hx)
    | true =>
      simp only at hr
      obtain ⟨-, c3⟩ := c2 rfl
      cases h2 : secondPhase fc fuel s1 with
      | none => rw [h2] at hr; cases hr
      | some s2 =>
        rw [h2] at hr
        simp only at hr
        obtain ⟨q1, q2, q3, q4, q5⟩ := c3 s2 h2
        by_cases hopt : s2.status = .OPTIMIZED
        · have : (s2.status == Status.OPTIMIZED) = true := by rw [hopt]; rfl
          rw [if_pos this] at hr
          simp only [Option.some.injEq] at hr
          subst hr
          refine ⟨q2, (hsem _).mpr q3, fun x hx => ?_⟩
          unfold BB.objAt
          rw [hbetter, hobjv, hobjv]
          exact q4 hopt x ((hsem x).mp hx)
        · have h0 : (s2.status == Status.OPTIMIZED) = false := by
            cases hs : s2.status <;> simp_all
          rw [if_neg (by rw [h0]; simp)] at hr
          have hunb : s2.status = .UNBOUNDED := by
            rcases q1 with h | h
            · exact absurd h hopt
            · exact h
          have : (s2.status == Status.UNBOUNDED) = true := by rw [hunb]; rfl
          rw [if_pos this] at hr
          simp only [Option.some.injEq] at hr
          subst hr
          refine ⟨q2, (hsem _).mpr q3, fun M => ?_⟩
          obtain ⟨x, x1, x2⟩ := q5 hunb M
          exact ⟨x, (hsem x).mpr x1, by rw [hbetter, hobjv]; exact x2⟩

end PPLV.Solver.Pend
