import PPLV.Solver.PIPCoreProofsMain2
/-!
# C07 stage 2 — end-to-end, part 3: tautology, split, exit, cuts; the induction over the fuel
-/
namespace PPLV.PIPCore

/-! ### the tautology step (PIP_Tree.cc:3111-3135) -/

theorem inv_taut {cc : Mat → Option Bool} {S : List Int → Prop} {n0 : Nat} {nd : SolNode} {ctx : Mat}
    (h : Inv' S n0 nd ctx) {sg : List RowSign} {fs : Firsts}
    (hs : signAnalysis cc nd ctx = some (sg, fs)) (h1 : Inv' S n0 { nd with sign := sg } ctx)
    {i : Nat} (hm : signGet sg i = .mixed) :
    Inv' S n0 { nd with cons := addConstraint nd.cons (integralSimplification (mrow nd.tab.t i)),
                        sign := sg.set i .positive }
      (ctx ++ [integralSimplification (mrow nd.tab.t i)]) := by
  have hi : i < nd.tab.t.length := by
    have := signGet_mixed_lt hm
    rw [signAnalysis_length hs, h.wf.sign_len, h.wf.rows_eq] at this
    exact this
  have hnt0 : 0 < nd.tab.nt := by have := h.nt_eq; have := h.n0_pos; omega
  exact
  { wf := wf_congr (nd := nd) rfl rfl rfl rfl rfl
      (by show (sg.set i .positive).length = _; rw [List.length_set]; exact signAnalysis_length hs) h.wf
    lex := lexpos_of_same_tableau nd _ rfl rfl rfl h.lex
    big := h.big
    arts := h.arts
    nt_eq := h.nt_eq
    n0_pos := h.n0_pos
    ctx_len := by
      intro r hr
      rcases List.mem_append.mp hr with hr | hr
      · exact h.ctx_len r hr
      · rw [List.mem_singleton.mp hr]
        -- the length of the simplified row does not depend on the valuation: use any ParamVec
        rw [integralSimplification_length]
        exact Node.t_row_length h.wf hi
    cons_len := by
      intro r hr
      unfold addConstraint at hr
      rcases List.mem_append.mp hr with hr | hr
      · exact h.cons_len r hr
      · rw [List.mem_singleton.mp hr, rowNormalizeAll_length, integralSimplification_length]
        exact Nat.le_of_eq (Node.t_row_length h.wf hi)
    pv := h.pv
    pvq := h.pvq
    rel := by
      intro qpre hq hc
      have hc' : consHold (nd.cons ++ [rowNormalizeAll (integralSimplification (mrow nd.tab.t i))])
          (extendArts nd.arts qpre) = true := hc
      rw [consHold_append', Bool.and_eq_true] at hc'
      rw [ctxSat_append]
      refine ⟨h.rel qpre hq hc'.1, ?_⟩
      have : 0 ≤ dot (rowNormalizeAll (integralSimplification (mrow nd.tab.t i))) (extendArts nd.arts qpre) := by
        have := hc'.2
        unfold consHold at this
        simpa using this
      exact (rowNormalizeAll_sign _ _).mp this
    sgn := by
      intro qpre hq hc
      have hc' : consHold (nd.cons ++ [rowNormalizeAll (integralSimplification (mrow nd.tab.t i))])
          (extendArts nd.arts qpre) = true := hc
      rw [consHold_append', Bool.and_eq_true] at hc'
      have hrow : 0 ≤ dot (integralSimplification (mrow nd.tab.t i)) (extendArts nd.arts qpre) := by
        have := hc'.2
        unfold consHold at this
        exact (rowNormalizeAll_sign _ _).mp (by simpa using this)
      exact tautology_signAt h.wf hs hm hi (h.pvq qpre hq) (h1.sgn qpre hq hc'.1) hrow
    int := fun qpre hq => intInv_congr rfl rfl rfl rfl (h.int qpre hq) }

/-! ### the children of a split (PIP_Tree.cc:3161-3215) -/

/-- the valuations a child is responsible for: extensions of the parent's, where the parent's own
    constraints hold and the test has the sign of the branch -/
def ChildSet (S : List Int → Prop) (nd : SolNode) (test : Row) : List Int → Prop :=
  fun qc => ∃ qpre, S qpre ∧ qc = extendArts nd.arts qpre ∧ consHold nd.cons qc = true ∧ 0 ≤ dot test qc

theorem inv_child {S : List Int → Prop} {n0 : Nat} {nd : SolNode} {ctx : Mat} (h : Inv' S n0 nd ctx)
    {test : Row} (htl : test.length = nd.tab.nt) :
    Inv' (ChildSet S nd test) nd.tab.nt { nd with arts := [], cons := [] } (ctx ++ [test]) where
  wf := wf_congr (nd := nd) rfl rfl rfl rfl rfl rfl h.wf
  lex := lexpos_of_same_tableau nd _ rfl rfl rfl h.lex
  big := h.big
  arts := by intro j hj; simp at hj
  nt_eq := by simp
  n0_pos := by have := h.nt_eq; have := h.n0_pos; omega
  ctx_len := by
    intro r hr
    rcases List.mem_append.mp hr with hr | hr
    · exact h.ctx_len r hr
    · rw [List.mem_singleton.mp hr]; exact htl
  cons_len := by intro r hr; simp at hr
  pv := by
    rintro qc ⟨qpre, hq, rfl, _, _⟩
    exact h.pvq qpre hq
  pvq := by
    rintro qc ⟨qpre, hq, rfl, _, _⟩
    exact h.pvq qpre hq
  rel := by
    rintro qc ⟨qpre, hq, rfl, hc, ht⟩ _
    show CtxSat (ctx ++ [test]) (extendArts nd.arts qpre)
    rw [ctxSat_append]
    exact ⟨h.rel qpre hq hc, ht⟩
  sgn := by
    rintro qc ⟨qpre, hq, rfl, hc, _⟩ _
    exact signAt_congr (nd := nd) rfl rfl (h.sgn qpre hq hc)
  int := by
    rintro qc ⟨qpre, hq, rfl, _, _⟩
    exact intInv_congr rfl rfl rfl rfl (h.int qpre hq)

/-! ### the exit "solution found" (PIP_Tree.cc:3357-3392) -/

theorem final_step (F : StepFacts) {cc : Mat → Option Bool} {S : List Int → Prop} {n0 : Nat}
    {nd : SolNode} {ctx : Mat} (h : Inv' S n0 nd ctx) {sg : List RowSign} {fs : Firsts}
    (hs : signAnalysis cc nd ctx = some (sg, fs)) (h1 : Inv' S n0 { nd with sign := sg } ctx)
    (hneg : fs.neg = none) (hmix : fs.mix = none)
    (hint : solutionIntegral { nd with sign := sg, tab := nd.tab.normalize } = true)
    {qpre : List Int} (hq : S qpre) {x : List Int}
    (hx : evalRes (some (.sol { nd with sign := sg, tab := nd.tab.normalize })) qpre = some x) :
    IsLexMin nd (extendArts nd.arts qpre) x := by
  -- unfold the evaluation of the solution node
  have hx' : (if consHold nd.cons (extendArts nd.arts qpre) then
      some (SolNode.point { nd with sign := sg, tab := nd.tab.normalize } (extendArts nd.arts qpre)) else none)
      = some x := hx
  by_cases hc : consHold nd.cons (extendArts nd.arts qpre) = true
  · rw [if_pos hc] at hx'
    injection hx' with hx'
    subst hx'
    have hwf1 : WF { nd with sign := sg } := h1.wf
    have hwfn : WF { nd with sign := sg, tab := nd.tab.normalize } := normalize_wf hwf1
    have hpz := signAnalysis_all_nonneg (by rw [h.wf.sign_len, h.wf.rows_eq]) hs hneg hmix
    have hfin := final_node_correct (nd := { nd with sign := sg, tab := nd.tab.normalize })
      (q := extendArts nd.arts qpre) hwfn (normalize_lexpos _ h1.lex)
      (by rw [show ({ nd with sign := sg, tab := nd.tab.normalize } : SolNode).tab.nt = nd.tab.nt from
            (normalize_shape nd.tab).2.2.2]; exact h.pvq qpre hq)
      ((signAt_normalize hwf1).mpr (h1.sgn qpre hq hc))
      (by
        intro k hk
        rw [show ({ nd with sign := sg, tab := nd.tab.normalize } : SolNode).tab.t.length = nd.tab.t.length from
          (normalize_shape nd.tab).2.1] at hk
        exact hpz k hk)
      hint (F.normalize_intinv hwf1 (h1.int qpre hq))
    -- back from the normalised node to `nd`
    have hns : ({ nd with sign := sg, tab := nd.tab.normalize } : SolNode).tab.ns = nd.tab.ns :=
      (normalize_shape nd.tab).2.2.1
    refine isLexMin_of_feasible_iff hns (fun v => ?_) hfin
    have hts := normalize_tabsat hwf1 v (extendArts nd.arts qpre)
    unfold Feasible
    rw [hts]
    exact Iff.rfl
  · rw [if_neg hc] at hx'
    exact absurd hx' (by simp)

end PPLV.PIPCore
