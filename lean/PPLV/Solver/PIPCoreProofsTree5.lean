import PPLV.Solver.PIPCoreProofsTree3
/-!
# C07 core — tree family, part 5: the bottom analogue of `resToTree_eval_point`

When `Tree.eval` answers `.bottom` every scoping step on the path succeeded, so `evalC` follows the same
path; `evalVals` never answers `.bottom`, so at a solution node bottom means the constraints failed; a
missing false child is `.bottom` in `CTree.toTree`.
-/
namespace PPLV.PIPCore
open PPLV.PIP (Tree QAff PCon Aff Rel Result dotI evalArts evalCons evalVals)

namespace TreeP

theorem evalVals_ne_bottom : ∀ (qs : List QAff) (env : List Int), evalVals qs env ≠ .bottom
  | [], _ => by simp only [evalVals]; intro h; cases h
  | q :: qs, env => by
    have ih := evalVals_ne_bottom qs env
    simp only [evalVals]
    cases hv : q.num.eval env with
    | none => intro h; cases h
    | some v =>
      simp only
      cases hb : (v % q.den != 0) with
      | true =>
        simp only [if_true]
        cases hr : evalVals qs env <;> (intro h; cases h)
      | false =>
        simp only [Bool.false_eq_true, if_false]
        cases hr : evalVals qs env with
        | bottom => exact absurd hr ih
        | point p => intro h; cases h
        | scopeError => intro h; cases h
        | nonIntegral => intro h; cases h

theorem toTree_eval_bottom : ∀ (c : CTree) (θ : List Int),
    c.toTree.eval θ = .bottom → c.evalC (1 :: θ) = none
  | .sol nd, θ, h => by
    simp only [CTree.toTree, Tree.eval] at h
    cases hA : evalArts (nd.arts.map ArtP.toQAff) θ with
    | none => rw [hA] at h; cases h
    | some env' =>
      rw [hA] at h
      simp only at h
      cases hC : evalCons (nd.cons.map consToPCon) env' with
      | none => rw [hC] at h; cases h
      | some b =>
        rw [hC] at h
        simp only [CTree.evalC]
        rw [evalArts_extend _ _ _ hA, evalCons_consHold _ _ _ hC]
        cases b with
        | false => rfl
        | true =>
          simp only at h
          exact absurd h (evalVals_ne_bottom _ _)
  | .dec arts cons t none, θ, h => by
    simp only [CTree.toTree, Tree.eval] at h
    cases hA : evalArts (arts.map ArtP.toQAff) θ with
    | none => rw [hA] at h; cases h
    | some env' =>
      rw [hA] at h
      simp only at h
      cases hC : evalCons (cons.map consToPCon) env' with
      | none => rw [hC] at h; cases h
      | some b =>
        rw [hC] at h
        simp only [CTree.evalC]
        rw [evalArts_extend _ _ _ hA, evalCons_consHold _ _ _ hC]
        cases b with
        | false => rfl
        | true =>
          simp only at h
          rw [if_pos rfl]
          exact toTree_eval_bottom t env' h
  | .dec arts cons t (some f), θ, h => by
    simp only [CTree.toTree, Tree.eval] at h
    cases hA : evalArts (arts.map ArtP.toQAff) θ with
    | none => rw [hA] at h; cases h
    | some env' =>
      rw [hA] at h
      simp only at h
      cases hC : evalCons (cons.map consToPCon) env' with
      | none => rw [hC] at h; cases h
      | some b =>
        rw [hC] at h
        simp only [CTree.evalC]
        rw [evalArts_extend _ _ _ hA, evalCons_consHold _ _ _ hC]
        cases b with
        | false =>
          simp only at h
          rw [if_neg (by decide)]
          exact toTree_eval_bottom f env' h
        | true =>
          simp only at h
          rw [if_pos rfl]
          exact toTree_eval_bottom t env' h

end TreeP

open TreeP

/-- whenever the public semantics of the tree shown to the user answers bottom at `θ`, the solver-side
    evaluation at the column vector `1 :: θ` answers bottom -/
theorem resToTree_eval_bottom (r : Option CTree) (θ : List Int)
    (h : (resToTree r).eval θ = .bottom) : evalRes r (1 :: θ) = none := by
  cases r with
  | none => rfl
  | some c => exact toTree_eval_bottom c θ h

/-! non-vacuity: `exTree` at `p = 0` (false child, its saved constraint `p - 1 ≥ 0` fails) -/
example : (resToTree (some exTree)).eval [0] = .bottom ∧ evalRes (some exTree) [1, 0] = none := by decide

end PPLV.PIPCore
