import PPLV.Solver.Pending
import PPLV.Solver.TableauProofs

/-!
# C06 stage 3 (d) — the pricing rules return candidate columns; entries of a combined row

* `textbook_is_candidate`, `steepestEdgeExact_is_candidate`, `arbitraryEntering_is_candidate`:
  the index returned is a candidate column when non-zero, and it is 0 iff no candidate exists;
* `normalizeRow_spec`, `linearCombine_spec`: a positive multiple `d` of the combined row is the plain
  integer combination `−(y_k/g)·x + (x_k/g)·y` (entry-wise and as a functional).
-/
namespace PPLV.Solver.Pend
open PPLV.Lin PPLV.Solver.Tab

/-! ### candidates -/

theorem isCandidate_iff (cost : Row) (j : Nat) :
    isCandidate cost j = true ↔
      1 ≤ j ∧ j < cost.length - 1 ∧ sgn (cost.get j) = sgn (cost.get (cost.length - 1)) := by
  unfold isCandidate
  simp only [Bool.and_eq_true, decide_eq_true_eq, beq_iff_eq, and_assoc]

theorem textbookEntering_cases (cost : Row) :
    (textbookEntering cost = 0 ∧ ∀ j, isCandidate cost j = false) ∨
    (textbookEntering cost ≠ 0 ∧ isCandidate cost (textbookEntering cost) = true) := by
  unfold textbookEntering
  simp only
  cases hf : (List.range' 1 (cost.length - 1 - 1)).find?
      (fun j => sgn (cost.get j) == sgn (cost.get (cost.length - 1))) with
  | none =>
    left
    refine ⟨rfl, fun j => ?_⟩
    cases hc : isCandidate cost j with
    | false => rfl
    | true =>
      obtain ⟨h1, h2, h3⟩ := (isCandidate_iff cost j).mp hc
      have := List.find?_eq_none.mp hf j (by rw [List.mem_range'_1]; omega)
      simp [h3] at this
  | some k =>
    right
    have hk := List.mem_of_find?_eq_some hf
    have hp := List.find?_some hf
    rw [List.mem_range'_1] at hk
    simp only
    refine ⟨by omega, (isCandidate_iff cost k).mpr ⟨hk.1, by omega, ?_⟩⟩
    simpa using hp

/-- **`textbook_entering_index`** returns a candidate column, and 0 exactly when there is none -/
theorem textbook_is_candidate (cost : Row) :
    (textbookEntering cost ≠ 0 → isCandidate cost (textbookEntering cost) = true) ∧
    (textbookEntering cost = 0 ↔ ∀ j, isCandidate cost j = false) := by
  rcases textbookEntering_cases cost with ⟨h0, hn⟩ | ⟨h1, hc⟩
  · exact ⟨fun h => absurd h0 h, fun _ => hn, fun _ => h0⟩
  · refine ⟨fun _ => hc, fun h => absurd h h1, fun h => ?_⟩
    rw [h _] at hc; cases hc

/-- a fold that keeps the current index or takes the new one, and takes the first one when the
    current index is 0, ends in an element of the list (elements non-zero) -/
theorem foldl_pick {β : Type} (f : Nat × β → Nat → Nat × β)
    (hf : ∀ st j, (f st j).1 = st.1 ∨ (f st j).1 = j) (hf0 : ∀ st j, st.1 = 0 → (f st j).1 = j) :
    ∀ (l : List Nat) (st : Nat × β),
      ((l.foldl f st).1 = st.1 ∨ (l.foldl f st).1 ∈ l) ∧
      (st.1 = 0 → l ≠ [] → (∀ j ∈ l, j ≠ 0) → (l.foldl f st).1 ∈ l) := by
  intro l
  induction l with
  | nil => intro st; exact ⟨Or.inl rfl, fun _ h => absurd rfl h⟩
  | cons a l ih =>
    intro st
    simp only [List.foldl_cons]
    obtain ⟨h1, h2⟩ := ih (f st a)
    constructor
    · rcases h1 with h1 | h1
      · rcases hf st a with h | h
        · left; rw [h1, h]
        · right; rw [h1, h]; exact List.mem_cons_self
      · right; exact List.mem_cons_of_mem _ h1
    · intro h0 _ hnz
      have ha := hf0 st a h0
      rcases h1 with h1 | h1
      · rw [h1, ha]; exact List.mem_cons_self
      · exact List.mem_cons_of_mem _ h1

/-- **`steepest_edge_exact_entering_index`** returns a candidate column, and 0 exactly when there is
    none (whatever the tableau: the comparison only selects among the candidates) -/
theorem steepestEdgeExact_is_candidate (T : List Row) (cost : Row) (base : List Nat) :
    (steepestEdgeExact T cost base ≠ 0 → isCandidate cost (steepestEdgeExact T cost base) = true) ∧
    (steepestEdgeExact T cost base = 0 ↔ ∀ j, isCandidate cost j = false) := by
  unfold steepestEdgeExact
  simp only
  generalize hc : (List.range' 1 (cost.length - 1 - 1)).filter
      (fun j => sgn (cost.get j) == sgn (cost.get (cost.length - 1))) = cands
  have hmem : ∀ j, j ∈ cands ↔ isCandidate cost j = true := by
    intro j
    rw [← hc, List.mem_filter, List.mem_range'_1, isCandidate_iff]
    simp only [beq_iff_eq]
    constructor
    · rintro ⟨⟨h1, h2⟩, h3⟩; exact ⟨h1, by omega, h3⟩
    · rintro ⟨h1, h2, h3⟩; exact ⟨⟨h1, by omega⟩, h3⟩
  generalize hstep : (fun (st : Nat × Int × Int) (j : Nat) =>
      if st.1 == 0 then (j, cost.get j * cost.get j, _)
      else if cost.get j * cost.get j * st.2.2 > st.2.1 * _ then (j, cost.get j * cost.get j, _) else st) = step
  have hf : ∀ st j, (step st j).1 = st.1 ∨ (step st j).1 = j := by
    intro st j; rw [← hstep]; simp only
    split
    · right; rfl
    · split
      · right; rfl
      · left; rfl
  have hf0 : ∀ st j, st.1 = 0 → (step st j).1 = j := by
    intro st j h0; rw [← hstep]; simp [h0]
  obtain ⟨h1, h2⟩ := foldl_pick step hf hf0 cands.reverse (0, 0, 0)
  have hnz : ∀ j ∈ cands.reverse, j ≠ 0 := by
    intro j hj
    have := (isCandidate_iff cost j).mp ((hmem j).mp (List.mem_reverse.mp hj))
    omega
  constructor
  · intro hne
    rcases h1 with h1 | h1
    · exact absurd h1 hne
    · exact (hmem _).mp (List.mem_reverse.mp h1)
  · constructor
    · intro h0 j
      cases hcj : isCandidate cost j with
      | false => rfl
      | true =>
        have hj : j ∈ cands := (hmem j).mpr hcj
        have hne : cands.reverse ≠ [] := by
          intro he; rw [List.reverse_eq_nil_iff] at he; rw [he] at hj; cases hj
        have := h2 rfl hne hnz
        exact absurd h0 (hnz _ this)
    · intro hall
      rcases h1 with h1 | h1
      · exact h1
      · have := (hmem _).mp (List.mem_reverse.mp h1)
        rw [hall] at this; cases this

/-- (d) the float pricing as an arbitrary choice: whatever `choice` proposes, the column taken is a
    candidate, and 0 is returned exactly when there is none -/
theorem arbitraryEntering_is_candidate (choice : List Row → Row → List Nat → Nat)
    (T : List Row) (cost : Row) (base : List Nat) :
    (arbitraryEntering choice T cost base ≠ 0 → isCandidate cost (arbitraryEntering choice T cost base) = true) ∧
    (arbitraryEntering choice T cost base = 0 ↔ ∀ j, isCandidate cost j = false) := by
  unfold arbitraryEntering
  simp only
  by_cases hc : isCandidate cost (choice T cost base) = true
  · rw [if_pos hc]
    have h1 := ((isCandidate_iff cost _).mp hc).1
    refine ⟨fun _ => hc, fun h => by omega, fun h => ?_⟩
    rw [h _] at hc; cases hc
  · simp only [hc, Bool.false_eq_true, if_false]
    exact textbook_is_candidate cost

/-! ### entries of a normalised / combined row -/

theorem normalizeRow_spec (r : Row) :
    ∃ d : Int, 0 < d ∧ (∀ j, d * (normalizeRow r).get j = r.get j) ∧
      (∀ x : Val, (d : Rat) * dot (normalizeRow r) x = dot r x) ∧ (normalizeRow r).length = r.length := by
  unfold normalizeRow
  simp only
  split
  · exact ⟨1, by norm_num, fun j => by simp, fun x => by simp, rfl⟩
  · rename_i hg
    refine ⟨((gcdList r : Nat) : Int), by omega, fun j => ?_, fun x => ?_, by simp⟩
    · unfold Row.get
      rw [getD_map_div]
      have hdvd : ((gcdList r : Nat) : Int) ∣ r.getD j 0 := by
        rw [List.getD_eq_getElem?_getD]
        cases h : r[j]? with
        | none => simp
        | some a => exact gcdList_dvd r a (List.mem_of_getElem? h)
      exact Int.mul_ediv_cancel' hdvd
    · exact dot_map_div _ r (gcdList_dvd r) x

theorem length_lincomb (a b : Int) (xs ys : List Int) :
    (lincomb a b xs ys).length = max xs.length ys.length := by
  induction xs generalizing ys with
  | nil => simp [lincomb]
  | cons x xs ih =>
    cases ys with
    | nil => simp [lincomb]
    | cons y ys => simp [lincomb, ih]

/-- the multipliers of `linear_combine(x, y, k)` -/
def lcNx (x y : Row) (k : Nat) : Int := x.get k / ((Int.gcd (x.get k) (y.get k) : Nat) : Int)
def lcNy (x y : Row) (k : Nat) : Int := y.get k / ((Int.gcd (x.get k) (y.get k) : Nat) : Int)

theorem lcN_spec (x y : Row) (k : Nat) (hy : y.get k ≠ 0) :
    ∃ g : Int, g ≠ 0 ∧ g * lcNx x y k = x.get k ∧ g * lcNy x y k = y.get k ∧ lcNy x y k ≠ 0 := by
  unfold lcNx lcNy
  have hp := Int.gcd_dvd_left (x.get k) (y.get k)
  have hq := Int.gcd_dvd_right (x.get k) (y.get k)
  generalize ((Int.gcd (x.get k) (y.get k) : Nat) : Int) = g at *
  have hg : g ≠ 0 := by
    intro h0; rw [h0] at hq; exact hy (by simpa using hq)
  refine ⟨g, hg, Int.mul_ediv_cancel' hp, Int.mul_ediv_cancel' hq, ?_⟩
  intro h0
  have := Int.mul_ediv_cancel' hq
  rw [h0, mul_zero] at this
  exact hy this.symm

/-- **entries of `linear_combine(x, y, k)`**: a positive multiple of the result is
    `−n_y·x + n_x·y`, entry by entry and as a linear functional; lengths are kept -/
theorem linearCombine_spec (x y : Row) (k : Nat) :
    ∃ d : Int, 0 < d ∧
      (∀ j, d * (linearCombine x y k).get j = -(lcNy x y k) * x.get j + lcNx x y k * y.get j) ∧
      (∀ v : Val, (d : Rat) * dot (linearCombine x y k) v =
        -((lcNy x y k : Int) : Rat) * dot x v + ((lcNx x y k : Int) : Rat) * dot y v) ∧
      (linearCombine x y k).length = max x.length y.length := by
  unfold linearCombine
  simp only
  obtain ⟨d, hd, h1, h2, h3⟩ := normalizeRow_spec
    (lincomb (-(y.get k / ((Int.gcd (x.get k) (y.get k) : Nat) : Int)))
      (x.get k / ((Int.gcd (x.get k) (y.get k) : Nat) : Int)) x y)
  refine ⟨d, hd, fun j => ?_, fun v => ?_, ?_⟩
  · rw [h1 j]; unfold Row.get; rw [getD_lincomb]; rfl
  · rw [h2 v, dot_lincomb]; unfold lcNx lcNy; push_cast; ring
  · rw [h3, length_lincomb]

end PPLV.Solver.Pend
