import PPLV.Solver.PIPCoreProofsCut
import Mathlib.Tactic.Linarith
import Mathlib.Tactic.Ring
/-!
# C07 stage 2 — the cut step, part 2: what `generate_cut` builds, explicitly, in the two reachable cases
(non-parametric cut; parametric cut with a NEW artificial parameter), and the facts the semantic
theorems need (`Cut.CutFacts`).

The re-use of an existing artificial parameter (`findArt … = some j`) is UNREACHABLE when the
parameters of the node own the last columns of `t` (`ArtsWF`, `n0 + arts.length = nt`): the numerator of
the candidate has `nt` entries, the numerator of the `j`-th parameter of the node `n0 + j < nt`
(`Cut.findArt_none_of_setting`).  This mirrors the code: `Artificial_Parameter::operator==` compares the
space dimensions first (PIP_Tree.cc:1004).
-/
namespace PPLV.PIPCore

/-- the hypotheses under which a cut is generated in `solve`: `n0` = number of parameter columns before
    the node's own artificial parameters, `qpre` = the parameter vector on those columns -/
structure CutSetting (n0 : Nat) (qpre : List Int) (nd : SolNode) (ctx : Mat) : Prop where
  wf : WF nd
  nt_eq : n0 + nd.arts.length = nd.tab.nt
  arts_wf : ArtsWF n0 nd.arts
  qpre_ok : ParamVec n0 qpre
  q_ok : ParamVec nd.tab.nt (extendArts nd.arts qpre)
  ctx_cols : ∀ r ∈ ctx, r.length = nd.tab.nt

namespace Cut

def isParam (nd : SolNode) (index : Nat) : Bool :=
  ((mrow nd.tab.t index).drop 1).any fun a => a % nd.tab.den ≠ 0

def apNum (nd : SolNode) (index : Nat) : Row := (mrow nd.tab.t index).map (negmod nd.tab.den)

def cutS (nd : SolNode) (index : Nat) : Row := (mrow nd.tab.s index).map (fun a => posRem a nd.tab.den)

def appendCut (nd : SolNode) (T : Tableau) (arts : List ArtP) (cS cT : Row) : SolNode :=
  { nd with
    tab := { T with s := T.s ++ [cS], t := T.t ++ [cT] }
    varRow := nd.varRow ++ [nd.tab.t.length + nd.tab.ns]
    basis := nd.basis ++ [false]
    mapping := nd.mapping ++ [nd.tab.t.length]
    sign := nd.sign ++ [.negative]
    arts := arts }

/-- the node after a non-parametric cut -/
def ndNP (nd : SolNode) (index : Nat) : SolNode :=
  appendCut nd nd.tab nd.arts (cutS nd index) ((mrow nd.tab.t index).map (cutf nd.tab.den))

/-- the node after a parametric cut with a new artificial parameter -/
def ndP (nd : SolNode) (index : Nat) : SolNode :=
  appendCut nd { nd.tab with t := addZeroColumn nd.tab.t, nt := nd.tab.nt + 1 }
    (nd.arts ++ [ArtP.mk' (apNum nd index) nd.tab.den]) (cutS nd index)
    (rset ((mrow (addZeroColumn nd.tab.t) index).map (cutf nd.tab.den)) nd.tab.nt nd.tab.den)

def ctx1 (nd : SolNode) (index : Nat) : Row :=
  (negmod nd.tab.den (rget (mrow nd.tab.t index) 0)
    :: ((mrow nd.tab.t index).drop 1).map (negmod nd.tab.den)) ++ [-nd.tab.den]

def ctx2 (nd : SolNode) (index : Nat) : Row :=
  ((if posRem (rget (mrow nd.tab.t index) 0) nd.tab.den ≠ 0
      then -(nd.tab.den - posRem (rget (mrow nd.tab.t index) 0) nd.tab.den) + nd.tab.den - 1
      else nd.tab.den - 1)
    :: (((mrow nd.tab.t index).drop 1).map (negmod nd.tab.den)).map (fun a => -a)) ++ [nd.tab.den]

def ctxP (nd : SolNode) (ctx : Mat) (index : Nat) : Mat :=
  addZeroColumn ctx ++ [ctx1 nd index, ctx2 nd index]

theorem gc_np (nd : SolNode) (ctx : Mat) (index : Nat) (h : isParam nd index = false) :
    generateCut nd ctx index = (ndNP nd index, ctx) := by
  unfold generateCut
  dsimp only
  split
  · rename_i hp
    have : isParam nd index = true := hp
    rw [h] at this; cases this
  · rfl

theorem gc_p (nd : SolNode) (ctx : Mat) (index : Nat) (h : isParam nd index = true)
    (hf : findArt nd.arts (ArtP.mk' (apNum nd index) nd.tab.den) = none) :
    generateCut nd ctx index = (ndP nd index, ctxP nd ctx index) := by
  unfold generateCut
  dsimp only
  split
  · split
    · rename_i j hj
      have : findArt nd.arts (ArtP.mk' (apNum nd index) nd.tab.den) = some j := hj
      rw [hf] at this; cases this
    · rfl
  · rename_i hp
    have : ¬ isParam nd index = true := hp
    exact absurd h this

/-! ### the setting makes the re-use unreachable -/

theorem rowT_length {n0 : Nat} {qpre : List Int} {nd : SolNode} {ctx : Mat}
    (hs : CutSetting n0 qpre nd ctx) {index : Nat} (hi : index < nd.tab.s.length) :
    (mrow nd.tab.t index).length = nd.tab.nt :=
  hs.wf.t_cols _ (Lex.mrow_mem _ _ (by rw [← hs.wf.rows_eq]; exact hi))

theorem findArt_none_of_setting {n0 : Nat} {qpre : List Int} {nd : SolNode} {ctx : Mat}
    (hs : CutSetting n0 qpre nd ctx) {index : Nat} (hi : index < nd.tab.s.length) :
    findArt nd.arts (ArtP.mk' (apNum nd index) nd.tab.den) = none := by
  apply findArt_none
  intro j hj
  rw [mk'_length _ _ hs.wf.den_pos, (hs.arts_wf j hj).1]
  unfold apNum
  rw [List.length_map, rowT_length hs hi, ← hs.nt_eq]
  omega

/-- the two reachable results -/
theorem gc_cases {n0 : Nat} {qpre : List Int} {nd : SolNode} {ctx : Mat}
    (hs : CutSetting n0 qpre nd ctx) {index : Nat} (hi : index < nd.tab.s.length) :
    (isParam nd index = false ∧ generateCut nd ctx index = (ndNP nd index, ctx)) ∨
    (isParam nd index = true ∧ generateCut nd ctx index = (ndP nd index, ctxP nd ctx index)) := by
  cases h : isParam nd index with
  | false => exact Or.inl ⟨rfl, gc_np nd ctx index h⟩
  | true => exact Or.inr ⟨rfl, gc_p nd ctx index h (findArt_none_of_setting hs hi)⟩

/-! ### list lemmas -/

theorem rset_append_len : ∀ (a : Row) (x v : Int), rset (a ++ [x]) a.length v = a ++ [v]
  | [], _, _ => rfl
  | b :: a, x, v => by
    show b :: rset (a ++ [x]) a.length v = b :: (a ++ [v])
    rw [rset_append_len a x v]

theorem mrow_addZeroColumn (m : Mat) (i : Nat) (h : i < m.length) :
    mrow (addZeroColumn m) i = mrow m i ++ [0] := by
  unfold mrow addZeroColumn
  rw [List.getD_eq_getElem?_getD, List.getD_eq_getElem?_getD, List.getElem?_map,
    List.getElem?_eq_getElem h]
  rfl

theorem getD_append_lt {α : Type} (l : List α) (x d : α) (k : Nat) (h : k < l.length) :
    (l ++ [x]).getD k d = l.getD k d := by
  rw [List.getD_eq_getElem?_getD, List.getD_eq_getElem?_getD, List.getElem?_append_left h]

theorem getD_append_len {α : Type} (l : List α) (x d : α) (k : Nat) (h : k = l.length) :
    (l ++ [x]).getD k d = x := by
  rw [h, List.getD_eq_getElem?_getD, List.getElem?_append_right (le_refl _)]
  simp

theorem getD_append_gt {α : Type} (l : List α) (x d : α) (k : Nat) (h : l.length < k) :
    (l ++ [x]).getD k d = d := by
  rw [List.getD_eq_getElem?_getD, List.getElem?_eq_none (by simp; omega)]
  rfl

theorem apNum_cons_form (nd : SolNode) (index : Nat) (h : 0 < (mrow nd.tab.t index).length) :
    negmod nd.tab.den (rget (mrow nd.tab.t index) 0)
      :: ((mrow nd.tab.t index).drop 1).map (negmod nd.tab.den) = apNum nd index := by
  unfold apNum
  cases hr : mrow nd.tab.t index with
  | nil => rw [hr] at h; simp at h
  | cons a as => simp [Lex.rget_cons_zero]

/-- the value `e` of the numerator of the artificial parameter -/
def eVal (nd : SolNode) (index : Nat) (q : List Int) : Int := dot (apNum nd index) q

theorem eVal_nonneg (nd : SolNode) (index : Nat) (q : List Int) (hd : 0 < nd.tab.den)
    (hq : ∀ b ∈ q, 0 ≤ b) : 0 ≤ eVal nd index q := by
  apply dot_nonneg _ _ _ hq
  intro a ha
  obtain ⟨b, _, rfl⟩ := List.mem_map.mp ha
  exact negmod_nonneg _ _ hd

/-- non-parametric cut: `e < den` -/
theorem eVal_lt_of_np (nd : SolNode) (index : Nat) (q : List Int) (n : Nat) (hd : 0 < nd.tab.den)
    (hq : ParamVec n q) (h : isParam nd index = false) : eVal nd index q < nd.tab.den := by
  obtain ⟨ps, rfl, _⟩ := hq.cons_form
  unfold eVal apNum
  unfold isParam at h
  rw [List.any_eq_false] at h
  cases hr : mrow nd.tab.t index with
  | nil => rw [List.map_nil, dot_nil_left]; exact hd
  | cons a as =>
    rw [hr] at h
    rw [List.map_cons, dot_cons, mul_one]
    have hz : dot (as.map (negmod nd.tab.den)) ps = 0 := by
      apply dot_zero
      intro x hx
      obtain ⟨b, hb, rfl⟩ := List.mem_map.mp hx
      apply negmod_zero
      have := h b (by simpa using hb)
      simpa using this
    rw [hz, add_zero]
    exact negmod_lt _ _ hd

/-! ### the facts the semantic theorems use -/

structure CutFacts (nd : SolNode) (index : Nat) (q : List Int) (nd' : SolNode) (q' : List Int) :
    Prop where
  s_eq : nd'.tab.s = nd.tab.s ++ [cutS nd index]
  den_eq : nd'.tab.den = nd.tab.den
  ns_eq : nd'.tab.ns = nd.tab.ns
  vr_eq : nd'.varRow = nd.varRow ++ [nd.tab.t.length + nd.tab.ns]
  vc_eq : nd'.varColumn = nd.varColumn
  basis_eq : nd'.basis = nd.basis ++ [false]
  mapping_eq : nd'.mapping = nd.mapping ++ [nd.tab.t.length]
  sign_eq : nd'.sign = nd.sign ++ [.negative]
  cons_eq : nd'.cons = nd.cons
  big_eq : nd'.big = nd.big
  t_old : ∀ i, i < nd.tab.t.length → dot (mrow nd'.tab.t i) q' = dot (mrow nd.tab.t i) q
  t_new : dot (mrow nd'.tab.t nd.tab.t.length) q' = - (eVal nd index q % nd.tab.den)

theorem facts_np (nd : SolNode) (index : Nat) (q : List Int) (n : Nat) (hd : 0 < nd.tab.den)
    (hq : ParamVec n q) (h : isParam nd index = false) :
    CutFacts nd index q (ndNP nd index) q := by
  refine ⟨rfl, rfl, rfl, rfl, rfl, rfl, rfl, rfl, rfl, rfl, ?_, ?_⟩
  · intro i hi
    show dot (mrow (nd.tab.t ++ [_]) i) q = _
    rw [Lex.mrow_append_lt _ _ _ hi]
  · show dot (mrow (nd.tab.t ++ [_]) nd.tab.t.length) q = _
    rw [Lex.mrow_append_len]
    have h1 := dot_negmod nd.tab.den (mrow nd.tab.t index) q
    have h2 : eVal nd index q % nd.tab.den = eVal nd index q :=
      Int.emod_eq_of_lt (eVal_nonneg nd index q hd hq.2.2) (eVal_lt_of_np nd index q n hd hq h)
    rw [h2]
    unfold eVal apNum
    rw [h1]; ring

theorem facts_p (nd : SolNode) (index : Nat) (q : List Int)
    (hcols : ∀ r ∈ nd.tab.t, r.length = nd.tab.nt) (hq : q.length = nd.tab.nt)
    (hi : index < nd.tab.t.length) :
    CutFacts nd index q (ndP nd index) (q ++ [eVal nd index q / nd.tab.den]) := by
  have hlen : ∀ i, i < nd.tab.t.length → (mrow nd.tab.t i).length = q.length :=
    fun i hi => by rw [hq]; exact hcols _ (Lex.mrow_mem _ _ hi)
  refine ⟨rfl, rfl, rfl, rfl, rfl, rfl, rfl, rfl, rfl, rfl, ?_, ?_⟩
  · intro i hi'
    show dot (mrow (addZeroColumn nd.tab.t ++ [_]) i) _ = _
    rw [Lex.mrow_append_lt _ _ _ (by simp [addZeroColumn]; exact hi'),
      mrow_addZeroColumn _ _ hi', dot_append_single _ _ _ _ (hlen i hi')]
    ring
  · show dot (mrow (addZeroColumn nd.tab.t ++ [_]) nd.tab.t.length) _ = _
    have hl : nd.tab.t.length = (addZeroColumn nd.tab.t).length := by simp [addZeroColumn]
    rw [hl, Lex.mrow_append_len, mrow_addZeroColumn _ _ hi, List.map_append, List.map_singleton]
    have hnt : nd.tab.nt = ((mrow nd.tab.t index).map (cutf nd.tab.den)).length := by
      rw [List.length_map, hlen index hi, hq]
    rw [hnt, rset_append_len,
      dot_append_single _ _ _ _ (by rw [List.length_map]; exact hlen index hi), Int.emod_def]
    unfold eVal apNum
    rw [dot_negmod]
    ring

end Cut
end PPLV.PIPCore
