import PPLV.Solver.BBSound

/-!
# C06 stage 3 — `is_mip_satisfiable` (with `choose_branching_variable`), the reference oracle
-/
namespace PPLV.Solver.BB
open PPLV.Lin PPLV.Solver

/-! ### `choose_branching_variable` -/

theorem pickWinner_isSome (rows : List InRow) (p : Pt) :
    ∀ (l : List Nat) (w : Nat) (b : Option Nat), b.isSome = true → (pickWinner rows p l w b).isSome = true := by
  intro l
  induction l with
  | nil => intro w b h; simpa [pickWinner] using h
  | cons v vs ih =>
    intro w b h
    unfold pickWinner
    simp only
    split
    · exact ih _ _ rfl
    · exact ih _ _ h

theorem pickWinner_mem (rows : List InRow) (p : Pt) :
    ∀ (l : List Nat) (w : Nat) (b : Option Nat) (i : Nat), pickWinner rows p l w b = some i → b = some i ∨ i ∈ l := by
  intro l
  induction l with
  | nil => intro w b i h; left; simpa [pickWinner] using h
  | cons v vs ih =>
    intro w b i h
    unfold pickWinner at h
    simp only at h
    split at h
    · rcases ih _ _ i h with h1 | h1
      · right; injection h1 with h1; subst h1; exact List.mem_cons_self
      · right; exact List.mem_cons_of_mem _ h1
    · rcases ih _ _ i h with h1 | h1
      · left; exact h1
      · right; exact List.mem_cons_of_mem _ h1

/-- `choose_branching_variable` returns true (`none`) exactly when every integer variable is integral
    at `last_generator`; otherwise the index it stores is an integer variable that is not integral -/
theorem chooseBranchingVariable_spec (N : Node) (p : Pt) (hd : 0 < p.den) :
    (chooseBranchingVariable N p = none → ∀ i ∈ N.ivars, ∃ z : Int, p.val i = (z : Rat)) ∧
    (∀ i, chooseBranchingVariable N p = some i → i ∈ N.ivars ∧ ¬ ∃ z : Int, p.val i = (z : Rat)) := by
  unfold chooseBranchingVariable
  constructor
  · intro h i hi
    by_contra hz
    have hni : nonIntegral p i = true := by
      by_contra hc
      rw [Bool.not_eq_true] at hc
      exact hz ((nonIntegral_false_iff p i hd).mp hc)
    have hmem : i ∈ N.ivars.filter (nonIntegral p) := List.mem_filter.mpr ⟨hi, hni⟩
    cases hl : N.ivars.filter (nonIntegral p) with
    | nil => rw [hl] at hmem; cases hmem
    | cons v vs =>
      rw [hl] at h
      unfold pickWinner at h
      simp only [ge_iff_le, Nat.zero_le, if_true] at h
      have := pickWinner_isSome N.rows p vs (numAppearances N.rows p v) (some v) rfl
      rw [h] at this; cases this
  · intro i h
    rcases pickWinner_mem N.rows p _ 0 none i h with h1 | h1
    · cases h1
    · obtain ⟨h2, h3⟩ := List.mem_filter.mp h1
      refine ⟨h2, fun hz => ?_⟩
      rw [(nonIntegral_false_iff p i hd).mpr hz] at h3; cases h3

/-! ### `is_mip_satisfiable` -/

def SatOracleOK (lp : SatOracle) : Prop :=
  ∀ N, N.toProblem.WF →
    (lp N = some none → ∀ x, ¬ Sat N.toProblem.cs x) ∧
    (∀ p, lp N = some (some p) → 0 < p.den ∧ Sat N.toProblem.cs p.val)

/-- `true` comes with a feasible integral point of the node, `false` means the node has none -/
theorem isMipSatisfiable_sound (lp : SatOracle) (hO : SatOracleOK lp) :
    ∀ (fuel : Nat) (N : Node), N.toProblem.WF →
      (∀ q, isMipSatisfiable lp fuel N = some (some q) → 0 < q.den ∧ Feasible N.toProblem q.val) ∧
      (isMipSatisfiable lp fuel N = some none → ∀ x, ¬ Feasible N.toProblem x) := by
  intro fuel
  induction fuel with
  | zero => intro N _; constructor <;> intros <;> simp_all [isMipSatisfiable]
  | succ fuel ih =>
    intro N hwf
    obtain ⟨hno, hyes⟩ := hO N hwf
    rw [isMipSatisfiable]
    cases hlp : lp N with
    | none => simp
    | some r =>
      cases r with
      | none =>
        simp only
        exact ⟨fun q h => (by cases h), fun _ x hx => hno hlp x hx.1⟩
      | some p =>
        simp only
        obtain ⟨hd, hs⟩ := hyes p hlp
        obtain ⟨cnone, csome⟩ := chooseBranchingVariable_spec N p hd
        cases hb : chooseBranchingVariable N p with
        | none =>
          simp only
          refine ⟨fun q h => ?_, fun h => by cases h⟩
          injection h with h; injection h with h; subst h
          exact ⟨hd, hs, cnone hb⟩
        | some i =>
          simp only
          obtain ⟨hi, -⟩ := csome i hb
          obtain ⟨hwfL, -⟩ := wf_addRow_branch N i (floorQ (coord p i)) hwf hi
          obtain ⟨-, hwfR⟩ := wf_addRow_branch N i (ceilQ (coord p i)) hwf hi
          obtain ⟨lyes, lno⟩ := ih (N.addRow (branchLe i (floorQ (coord p i)))) hwfL
          obtain ⟨ryes, rno⟩ := ih (N.addRow (branchGe i (ceilQ (coord p i)))) hwfR
          cases h1 : isMipSatisfiable lp fuel (N.addRow (branchLe i (floorQ (coord p i)))) with
          | none => simp
          | some r1 =>
            cases r1 with
            | some q1 =>
              simp only
              refine ⟨fun q h => ?_, fun h => by cases h⟩
              injection h with h; injection h with h; subst h
              obtain ⟨d1, f1⟩ := lyes q1 h1
              exact ⟨d1, ((feasible_addRow _ _ _).mp f1).1⟩
            | none =>
              simp only
              refine ⟨fun q h => ?_, fun h x hx => ?_⟩
              · obtain ⟨d2, f2⟩ := ryes q h
                exact ⟨d2, ((feasible_addRow _ _ _).mp f2).1⟩
              · rcases children_cover N i hi (coord p i) x hx with hL | hR
                · exact lno h1 x hL
                · exact rno h x hR

/-- **the rows `is_satisfiable()` leaves in the object are harmless**: `is_mip_satisfiable` adds the
    right-branch row `x_i ≥ ⌈p_i⌉` to the caller's problem itself (`mip.add_constraint`, :2345, with
    `mip` = the object in `is_satisfiable`), but only after the left branch was found to hold no
    feasible integral point — the set of feasible integral points of the object is unchanged -/
theorem right_branch_row_keeps_integral_points (N : Node) (i : Nat) (hi : i ∈ N.ivars) (q : Rat)
    (hleft : ∀ x, ¬ Feasible (N.addRow (branchLe i (floorQ q))).toProblem x) (x : Val) :
    Feasible (N.addRow (branchGe i (ceilQ q))).toProblem x ↔ Feasible N.toProblem x := by
  constructor
  · intro h; exact ((feasible_addRow _ _ _).mp h).1
  · intro h
    rcases children_cover N i hi q x h with hL | hR
    · exact absurd hL (hleft x)
    · exact hR

/-! ### the reference oracle satisfies the hypothesis -/

theorem checkFeasible_relaxed (P : Problem) (x : Pt) :
    checkFeasible { P with ints := [] } x = true ↔ Sat P.cs x.val := by
  rw [checkFeasible_iff]
  unfold Feasible
  simp

end PPLV.Solver.BB
