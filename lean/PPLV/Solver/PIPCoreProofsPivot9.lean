import PPLV.Solver.PIPCoreProofsPivot8
/-!
# C07 stage 2 — pivot proofs, part 9: a concrete instance (non-vacuity of the hypotheses)

Two rows, two column variables (0, 1), two row variables (2, 3), one parameter, denominator 4:

    4 x2 = 6 x0 - 2 x1 - 8 + 2 p        4 x3 = 2 x0 + 4 x1 + 10

`normalize` divides by 2; the pivot on (0, 0) has `spp = 3 ≠ den = 2` and has to scale (by 3) to
stay in the integers.
-/
namespace PPLV.PIPCore.Piv

def exNd : SolNode :=
  { tab := { s := [[6, -2], [2, 4]], t := [[-8, 2], [10, 0]], den := 4, ns := 2, nt := 2 },
    basis := [true, true, false, false], mapping := [0, 1, 0, 1],
    varRow := [2, 3], varColumn := [0, 1], sign := [.negative, .unknown],
    big := none, arts := [], cons := [] }

theorem exNd_wf : WF exNd where
  rows_eq := by decide
  s_cols := by decide
  t_cols := by decide
  den_pos := by decide
  vr_len := by decide
  vc_len := by decide
  sign_len := by decide
  map_len := by decide
  basis_len := by decide
  vr_ok := by decide
  vc_ok := by decide
  map_ok := by decide

/-- `normalize` is not the identity here -/
example : exNd.tab.normalize =
    { s := [[3, -1], [1, 2]], t := [[-4, 1], [5, 0]], den := 2, ns := 2, nt := 2 } := by decide

/-- the pivot, computed: `6 x0 = 4 x2 + 2 x1 + 8 - 2 p`, `6 x3 = 2 x2 + 7 x1 + 19 - p` -/
example : pivot exNd 0 0 =
    { tab := { s := [[4, 2], [2, 7]], t := [[8, -2], [19, -1]], den := 6, ns := 2, nt := 2 },
      basis := [false, true, true, false], mapping := [0, 1, 0, 1],
      varRow := [0, 3], varColumn := [2, 1], sign := [.mixed, .unknown],
      big := none, arts := [], cons := [] } := by decide

/-- the hypotheses of `pivot_spec` / `pivot_preserves` / `pivot_wf` hold on the instance -/
example : WF exNd ∧ 0 < exNd.tab.s.length ∧ 0 < exNd.tab.ns
    ∧ 0 < mget exNd.tab.normalize.s 0 0 ∧ [1, 2].length = exNd.tab.nt :=
  ⟨exNd_wf, by decide, by decide, by decide, by decide⟩

example : ∃ f, PivotSpec { exNd with tab := exNd.tab.normalize } (pivot exNd 0 0) 0 0 f :=
  pivot_spec exNd_wf (by decide) (by decide) (by decide)

example : ∀ v, TabSat exNd v [1, 2] ↔ TabSat (pivot exNd 0 0) v [1, 2] :=
  pivot_preserves exNd_wf (by decide) (by decide) (by decide) (by decide)

example : WF (pivot exNd 0 0) := pivot_wf exNd_wf (by decide) (by decide) (by decide)

/-- a solution at `p = 2`: `x0 = 1, x1 = 1, x2 = 0, x3 = 4`
    (`4 x2 = 6 - 2 - 8 + 4 = 0`, `4 x3 = 2 + 4 + 10 = 16`) -/
def exVal : Nat → Int := fun k => [1, 1, 0, 4].getD k 0

theorem exVal_sat : TabSat exNd exVal [1, 2] := by
  intro i hi
  have hi' : i < 2 := hi
  have : i = 0 ∨ i = 1 := by omega
  rcases this with rfl | rfl <;> (unfold RowHolds; decide)

/-- ... hence also a solution of the pivoted tableau (and `TabSat` is not vacuous on either side) -/
example : TabSat (pivot exNd 0 0) exVal [1, 2] :=
  (pivot_preserves exNd_wf (by decide) (by decide) (by decide) (by decide) exVal).mp exVal_sat

/-- a valuation that is not a solution, on both sides -/
example : ¬ TabSat (pivot exNd 0 0) (fun _ => 0) [1, 2] := by
  intro h
  have h0 := (pivot_preserves exNd_wf (pi := 0) (pj := 0) (q := [1, 2]) (by decide) (by decide)
    (by decide) (by decide) (fun _ => 0)).mpr h 0 (by decide)
  unfold RowHolds at h0
  revert h0
  decide

/-- `scale` and `normalize` on the instance -/
example : ∀ v, TabSat { exNd with tab := exNd.tab.scale 3 } v [1, 2] ↔ TabSat exNd v [1, 2] :=
  fun v => scale_tabsat exNd_wf (by decide) v [1, 2]

example : ∀ v, TabSat { exNd with tab := exNd.tab.normalize } v [1, 2] ↔ TabSat exNd v [1, 2] :=
  fun v => normalize_tabsat exNd_wf v [1, 2]

end PPLV.PIPCore.Piv
