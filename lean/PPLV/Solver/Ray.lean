import PPLV.Solver.MIPProofs

/-!
# C06 helper: an LP that is unbounded above has an improving recession direction

`unbounded_has_ray`: if the objective `e·x` takes arbitrarily large values on the (non-strict)
rows `cs`, then the system `rayRows e cs` (`e·d ≥ 1`, `a_i·d ≥ 0` for every row) has a solution.
This is the converse of `unbounded_of_ray` and is an instance of the affine Farkas lemma, which
is proved here from scratch:

* `Ray.InCone R r` — `r` is a non-negative combination of the rows `R` (inductive predicate, no
  multiplier bookkeeping);
* `Ray.farkas` — induction on the number of variables, one Fourier–Motzkin step per variable:
  a system without solution has a combination with zero coefficients and negative constant;
* the combination, read over the feasible points of `cs`, bounds the objective from above.

Finite sums are the private recursive `Ray.rsum` (no `Finset` needed).
-/
namespace PPLV.Solver
open PPLV.Lin

namespace Ray

/-! ### finite sums -/

def rsum : Nat → (Nat → Rat) → Rat
  | 0, _ => 0
  | m+1, f => rsum m f + f m

theorem rsum_add (m : Nat) (f g : Nat → Rat) :
    rsum m (fun i => f i + g i) = rsum m f + rsum m g := by
  induction m with
  | zero => simp [rsum]
  | succ m ih => simp only [rsum, ih]; ring

theorem rsum_mul (m : Nat) (c : Rat) (f : Nat → Rat) :
    rsum m (fun i => c * f i) = c * rsum m f := by
  induction m with
  | zero => simp [rsum]
  | succ m ih => simp only [rsum, ih]; ring

theorem rsum_congr (m : Nat) (f g : Nat → Rat) (h : ∀ i < m, f i = g i) : rsum m f = rsum m g := by
  induction m with
  | zero => rfl
  | succ m ih =>
    simp only [rsum]
    rw [ih (fun i hi => h i (by omega)), h m (by omega)]

theorem rsum_eq_zero (m : Nat) (f : Nat → Rat) (h : ∀ i < m, f i = 0) : rsum m f = 0 := by
  induction m with
  | zero => rfl
  | succ m ih =>
    simp only [rsum]
    rw [ih (fun i hi => h i (by omega)), h m (by omega)]; simp

theorem rsum_succ' (m : Nat) (f : Nat → Rat) :
    rsum (m+1) f = f 0 + rsum m (fun i => f (i+1)) := by
  induction m with
  | zero => simp [rsum]
  | succ m ih =>
    show rsum (m+1) f + f (m+1) = _
    rw [ih]; simp only [rsum]; ring

/-! ### rational rows and the cone they generate -/

/-- the row `a·x + k ≥ 0` with rational coefficients given as a function -/
structure QRow where
  a : Nat → Rat
  k : Rat

/-- value of the row on the first `m` variables -/
def QRow.eval (m : Nat) (r : QRow) (x : Val) : Rat := rsum m (fun i => r.a i * x i) + r.k
def QRow.add (r s : QRow) : QRow := ⟨fun i => r.a i + s.a i, r.k + s.k⟩
def QRow.smul (c : Rat) (r : QRow) : QRow := ⟨fun i => c * r.a i, c * r.k⟩

/-- non-negative combinations of the rows `R` -/
inductive InCone (R : List QRow) : QRow → Prop
  | mem {r : QRow} : r ∈ R → InCone R r
  | add {r s : QRow} : InCone R r → InCone R s → InCone R (r.add s)
  | smul {c : Rat} {r : QRow} : 0 ≤ c → InCone R r → InCone R (QRow.smul c r)

theorem eval_add (m : Nat) (r s : QRow) (x : Val) :
    (r.add s).eval m x = r.eval m x + s.eval m x := by
  unfold QRow.eval QRow.add
  have : (fun i => (r.a i + s.a i) * x i) = fun i => r.a i * x i + s.a i * x i := by
    funext i; ring
  simp only [this, rsum_add]; ring

theorem eval_smul (m : Nat) (c : Rat) (r : QRow) (x : Val) :
    (QRow.smul c r).eval m x = c * r.eval m x := by
  unfold QRow.eval QRow.smul
  have : (fun i => (c * r.a i) * x i) = fun i => c * (r.a i * x i) := by
    funext i; ring
  simp only [this, rsum_mul]; ring

theorem eval_succ (m : Nat) (r : QRow) (x : Val) :
    r.eval (m+1) x = r.eval m x + r.a m * x m := by
  unfold QRow.eval; simp only [rsum]; ring

theorem eval_update (m : Nat) (r : QRow) (x : Val) (t : Rat) :
    r.eval m (x.update m t) = r.eval m x := by
  unfold QRow.eval
  rw [rsum_congr m _ (fun i => r.a i * x i)]
  intro i hi
  have : i ≠ m := by omega
  simp [Val.update, this]

theorem InCone.mono {R R' : List QRow} (h : ∀ r ∈ R', InCone R r) {r : QRow} (hr : InCone R' r) :
    InCone R r := by
  induction hr with
  | mem hm => exact h _ hm
  | add _ _ ih1 ih2 => exact .add ih1 ih2
  | smul hc _ ih => exact .smul hc ih

theorem InCone.coeff_zero {R : List QRow} (j : Nat) (h : ∀ r ∈ R, r.a j = 0) {r : QRow}
    (hr : InCone R r) : r.a j = 0 := by
  induction hr with
  | mem hm => exact h _ hm
  | add _ _ ih1 ih2 => simp [QRow.add, ih1, ih2]
  | smul _ _ ih => simp [QRow.smul, ih]

/-! ### one Fourier–Motzkin step -/

/-- the combination of a lower bound `p` (`p.a j > 0`) and an upper bound `q` (`q.a j < 0`) of
    variable `j` that cancels it -/
def comb (j : Nat) (p q : QRow) : QRow := (QRow.smul (-(q.a j)) p).add (QRow.smul (p.a j) q)

def fmStep (j : Nat) (R : List QRow) : List QRow :=
  R.filter (fun r => decide (r.a j = 0)) ++
    (R.filter (fun r => decide (0 < r.a j))).flatMap fun p =>
      (R.filter (fun r => decide (r.a j < 0))).map fun q => comb j p q

theorem mem_fmStep (j : Nat) (R : List QRow) (r : QRow) :
    r ∈ fmStep j R ↔ (r ∈ R ∧ r.a j = 0) ∨
      ∃ p, (p ∈ R ∧ 0 < p.a j) ∧ ∃ q, (q ∈ R ∧ q.a j < 0) ∧ comb j p q = r := by
  simp [fmStep, List.mem_append, List.mem_filter, List.mem_flatMap, List.mem_map]

theorem exists_between {α β : Type} (P : List α) (N : List β) (lo : α → Rat) (up : β → Rat)
    (h : ∀ p ∈ P, ∀ q ∈ N, lo p ≤ up q) :
    ∃ t : Rat, (∀ p ∈ P, lo p ≤ t) ∧ ∀ q ∈ N, t ≤ up q := by
  by_cases hP : P = []
  · by_cases hN : N = []
    · subst hP hN; exact ⟨0, by simp, by simp⟩
    · obtain ⟨q0, _, hmin⟩ := exists_min_image N up hN
      subst hP; exact ⟨up q0, by simp, hmin⟩
  · obtain ⟨p0, hp0, hmax⟩ := exists_max_image P lo hP
    exact ⟨lo p0, hmax, fun q hq => h p0 hp0 q hq⟩

/-- **Farkas** (affine form): a system of rows without solution in the first `m` variables has a
    non-negative combination whose first `m` coefficients vanish and whose constant is negative -/
theorem farkas (m : Nat) : ∀ R : List QRow, (¬ ∃ x : Val, ∀ r ∈ R, 0 ≤ r.eval m x) →
    ∃ r, InCone R r ∧ (∀ i < m, r.a i = 0) ∧ r.k < 0 := by
  induction m with
  | zero =>
    intro R h
    by_contra hc
    apply h
    refine ⟨Val.zero, fun r hr => ?_⟩
    by_contra hneg
    apply hc
    refine ⟨r, .mem hr, fun i hi => absurd hi (Nat.not_lt_zero i), ?_⟩
    simpa [QRow.eval, rsum] using hneg
  | succ m ih =>
    intro R h
    have hgen : ∀ r ∈ fmStep m R, InCone R r ∧ r.a m = 0 := by
      intro r hr
      rcases (mem_fmStep m R r).mp hr with ⟨h1, h2⟩ | ⟨p, ⟨hp, hpa⟩, q, ⟨hq, hqa⟩, rfl⟩
      · exact ⟨.mem h1, h2⟩
      · refine ⟨.add (.smul (by linarith) (.mem hp)) (.smul (le_of_lt hpa) (.mem hq)), ?_⟩
        simp only [comb, QRow.add, QRow.smul]; ring
    have hno : ¬ ∃ x : Val, ∀ r ∈ fmStep m R, 0 ≤ r.eval m x := by
      rintro ⟨x, hx⟩
      apply h
      obtain ⟨t, hlo, hup⟩ := exists_between
        (R.filter (fun r => decide (0 < r.a m))) (R.filter (fun r => decide (r.a m < 0)))
        (fun p => -(p.eval m x) / p.a m) (fun q => q.eval m x / (-(q.a m))) (by
          intro p hp q hq
          simp only [List.mem_filter, decide_eq_true_eq] at hp hq
          have hc := hx (comb m p q) ((mem_fmStep m R _).mpr (Or.inr ⟨p, hp, q, hq, rfl⟩))
          rw [comb, eval_add, eval_smul, eval_smul] at hc
          have hqa : 0 < -(q.a m) := by linarith [hq.2]
          show -(p.eval m x) / p.a m ≤ q.eval m x / (-(q.a m))
          rw [div_le_div_iff₀ hp.2 hqa]
          linarith)
      refine ⟨x.update m t, fun r hr => ?_⟩
      rw [eval_succ, eval_update]
      have hxm : x.update m t m = t := by simp [Val.update]
      rw [hxm]
      rcases lt_trichotomy (r.a m) 0 with hneg | hz | hpos
      · have := hup r (by simp [List.mem_filter, hr, hneg])
        have hqa : 0 < -(r.a m) := by linarith
        rw [le_div_iff₀ hqa] at this
        linarith
      · have := hx r ((mem_fmStep m R r).mpr (Or.inl ⟨hr, hz⟩))
        rw [hz]; linarith
      · have := hlo r (by simp [List.mem_filter, hr, hpos])
        rw [div_le_iff₀ hpos] at this
        linarith
    obtain ⟨r, hr, hz, hk⟩ := ih (fmStep m R) hno
    refine ⟨r, InCone.mono (fun s hs => (hgen s hs).1) hr, ?_, hk⟩
    intro i hi
    by_cases him : i = m
    · subst him; exact InCone.coeff_zero i (fun s hs => (hgen s hs).2) hr
    · exact hz i (by omega)

/-! ### integer rows as rational rows -/

def toQ (c : Con) : QRow := ⟨fun i => ((c.coeffs.getD i 0 : Int) : Rat), (c.k : Rat)⟩

theorem dot_eq_rsum (l : List Int) (n : Nat) (x : Val) (h : l.length ≤ n) :
    dot l x = rsum n (fun i => ((l.getD i 0 : Int) : Rat) * x i) := by
  induction l generalizing n x with
  | nil =>
    rw [rsum_eq_zero]
    · rfl
    · intro i _; simp
  | cons a l ih =>
    cases n with
    | zero => simp at h
    | succ n =>
      rw [rsum_succ', dot_cons, ih n x.tail (by simpa using h)]
      simp [Val.tail]

theorem eval_toQ (c : Con) (n : Nat) (x : Val) (h : c.coeffs.length ≤ n) :
    (toQ c).eval n x = c.eval x := by
  unfold QRow.eval toQ Con.eval
  rw [dot_eq_rsum c.coeffs n x h]

/-- a common bound on the lengths of all rows -/
theorem exists_dim (e : List Int) (cs : List Con) : ∃ n, WF n cs ∧ e.length ≤ n := by
  induction cs with
  | nil => exact ⟨e.length, fun c hc => by simp at hc, le_refl _⟩
  | cons c cs ih =>
    obtain ⟨n, hwf, he⟩ := ih
    refine ⟨max n c.coeffs.length, ?_, le_trans he (le_max_left _ _)⟩
    intro d hd
    rcases List.mem_cons.mp hd with rfl | hd
    · exact le_max_right _ _
    · exact le_trans (hwf d hd) (le_max_left _ _)

end Ray

open Ray in
/-- **affine Farkas / Motzkin for the LP relaxation**: if `e·x` is unbounded above on the
    non-strict rows `cs`, the recession cone of `cs` contains a direction `d` with `e·d ≥ 1`.
    (No bound on the row lengths is needed.) -/
theorem unbounded_has_ray_free (e : List Int) (cs : List Con) (hns : NonStrict cs)
    (hunb : ∀ M : Rat, ∃ x, Sat cs x ∧ M < dot e x) :
    ∃ d : Val, Sat (rayRows e cs) d := by
  obtain ⟨n, hwf, he⟩ := exists_dim e cs
  by_contra hno
  have hno' : ¬ ∃ x : Val, ∀ r ∈ (rayRows e cs).map toQ, 0 ≤ r.eval n x := by
    rintro ⟨d, hd⟩
    apply hno
    refine ⟨d, fun c hc => ?_⟩
    have h1 := hd (toQ c) (List.mem_map_of_mem hc)
    rw [eval_toQ c n d (rayRows_wf n e cs hwf he c hc)] at h1
    have hst : c.strict = false := by
      simp only [rayRows, geRow, List.mem_cons, List.mem_map] at hc
      rcases hc with rfl | ⟨c', _, rfl⟩ <;> rfl
    simpa [Con.sat, hst] using h1
  obtain ⟨r, hr, hz, hk⟩ := farkas n _ hno'
  have key : ∀ r, InCone ((rayRows e cs).map toQ) r →
      r.k ≤ 0 ∧ ∃ B : Rat, ∀ x, Sat cs x →
        (-r.k) * dot e x ≤ rsum n (fun i => r.a i * x i) + B := by
    intro r hr
    induction hr with
    | mem hm =>
      simp only [rayRows, geRow, List.map_cons, List.map_map, List.mem_cons, List.mem_map,
        Function.comp] at hm
      rcases hm with rfl | ⟨c, hc, rfl⟩
      · refine ⟨by simp [toQ], 0, fun x _ => ?_⟩
        have := dot_eq_rsum e n x he
        simp only [toQ] at *
        rw [← this]; push_cast; linarith
      · refine ⟨by simp [toQ], (c.k : Rat), fun x hx => ?_⟩
        have h1 := hx c hc
        have hst := hns c hc
        simp only [Con.sat, hst, Bool.false_eq_true, if_false, Con.eval] at h1
        have := dot_eq_rsum c.coeffs n x (hwf c hc)
        simp only [toQ] at *
        rw [← this]; push_cast; linarith
    | @add r s _ _ ih1 ih2 =>
      obtain ⟨hk1, B1, h1⟩ := ih1
      obtain ⟨hk2, B2, h2⟩ := ih2
      refine ⟨by simp only [QRow.add]; linarith, B1 + B2, fun x hx => ?_⟩
      have e1 : (fun i => (r.add s).a i * x i) = fun i => r.a i * x i + s.a i * x i := by
        funext i; simp only [QRow.add]; ring
      rw [e1, rsum_add]
      have := h1 x hx
      have := h2 x hx
      simp only [QRow.add]
      linarith
    | @smul c r hc _ ih =>
      obtain ⟨hk1, B1, h1⟩ := ih
      refine ⟨by simp only [QRow.smul]; nlinarith, c * B1, fun x hx => ?_⟩
      have e1 : (fun i => (QRow.smul c r).a i * x i) = fun i => c * (r.a i * x i) := by
        funext i; simp only [QRow.smul]; ring
      rw [e1, rsum_mul]
      have := mul_le_mul_of_nonneg_left (h1 x hx) hc
      simp only [QRow.smul]
      linarith
  obtain ⟨-, B, hB⟩ := key r hr
  obtain ⟨x, hx, hM⟩ := hunb (B / (-r.k))
  have h1 := hB x hx
  rw [rsum_eq_zero n _ (fun i hi => by rw [hz i hi]; simp)] at h1
  have hpos : 0 < -r.k := by linarith
  rw [div_lt_iff₀ hpos] at hM
  linarith

/-- the same with the dimension hypotheses of the callers (not needed for the proof) -/
theorem unbounded_has_ray (n : Nat) (e : List Int) (cs : List Con)
    (_hwf : WF n cs) (_he : e.length ≤ n) (hns : NonStrict cs)
    (hunb : ∀ M : Rat, ∃ x, Sat cs x ∧ M < dot e x) :
    ∃ d : Val, Sat (rayRows e cs) d :=
  unbounded_has_ray_free e cs hns hunb

/-- the hypotheses are satisfiable: `max x` over `x ≥ 0` is unbounded, and `d = 1` is the ray -/
example : ∃ d : Val, Sat (rayRows [1] [geRow [1] 0]) d := by
  refine unbounded_has_ray 1 [1] [geRow [1] 0] ?_ (by simp) ?_ ?_
  · intro c hc; simp only [List.mem_cons, List.not_mem_nil, or_false] at hc; subst hc; simp [geRow]
  · intro c hc; simp only [List.mem_cons, List.not_mem_nil, or_false] at hc; subst hc; rfl
  · intro M
    refine ⟨fun _ => max 0 (M + 1), ?_, ?_⟩
    · intro c hc
      simp only [List.mem_cons, List.not_mem_nil, or_false] at hc; subst hc
      simp [Con.sat, geRow, Con.eval]
    · have : M + 1 ≤ max 0 (M + 1) := le_max_right _ _
      simp only [dot_cons, dot_nil]; push_cast; linarith

/-- the conclusion on the same instance, exhibited directly -/
example : Sat (rayRows [1] [geRow [1] 0]) (fun _ => 1) := by
  intro c hc
  simp only [rayRows, geRow, List.map_cons, List.map_nil, List.mem_cons, List.not_mem_nil,
    or_false] at hc
  rcases hc with rfl | rfl <;> simp [Con.sat, Con.eval]

end PPLV.Solver
