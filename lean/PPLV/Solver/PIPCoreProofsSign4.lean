import PPLV.Solver.PIPCoreProofsSign3
import Mathlib.Tactic.Linarith
import Mathlib.Tactic.Ring
/-!
# C07 core — sign family, part 4: soundness of the two refinements of MIXED rows with the oracle, what
fails when the denominator does not divide the parameter coefficients, and `recomputeSigns`

Summary of what is settled here (PIP_Tree.cc:2714-2808):
* first refinement: a `NEGATIVE` verdict is always true (`refineMixed1_negative_sound`); `POSITIVE` and
  `ZERO` verdicts are true under `DenDivides` (`refineMixed1_sound_partial`) and can be FALSE otherwise
  (`refineMixed1_unsound_example`: `den = 2`, `t = -p`, context `p ≤ 1`: verdict `POSITIVE`, value `-1` at
  `p = 1`; `refineMixed1_unsound_zero_example`: verdict `ZERO`, value `-1`).
* second refinement: the `NEGATIVE` verdict only means `t(z) ≤ 0` (weak!) under `DenDivides`
  (`refineMixed2_sound_partial`, `refineMixed2_not_strict_example`: `den = 1`, `t = -p`, value 0 at `p = 0`),
  and only `t(z) < den` without it (`refineMixed2_weak_sound`; `refineMixed2_unsound_example`: `den = 3`,
  `t = p - 1`, context `p ≤ 2`: verdict `NEGATIVE`, value `+1` at `p = 2`), also through the whole
  `signAnalysis` (`signAnalysis_unsound_example`).
-/
namespace PPLV.PIPCore

/-! ### the first refinement -/

/-- the verdict computed from the two oracle answers is true of every parameter vector of the context,
    PROVIDED the denominator divides the parameter coefficients of the row -/
theorem newSign1_sound {cc : Mat → Option Bool} (hcc : CCContract cc) {n : Nat} (hn : 0 < n) {ctx : Mat}
    (hctx : ∀ r ∈ ctx, r.length = n) {ti : Row} (hti : ti.length = n) {den : Int} (hden : 0 < den)
    (hdiv : DenDivides den ti) {b1 b2 : Bool} (hb1 : ccRow cc ctx ti = some b1)
    (hb2 : ccRow cc ctx (complementAssign ti den) = some b2)
    {q : List Int} (hq : ParamVec n q) (hsat : CtxSat ctx q) : SignTrue (newSign1 b1 b2) (dot ti q) := by
  have hne : ti ≠ [] := by intro h; subst h; simp at hti; omega
  have hex := complementAssign_den_exact hden hq.2.1 hne hdiv
  have hlen2 : (complementAssign ti den).length = n := by rw [complementAssign_length]; exact hti
  cases b2 with
  | true =>
    cases b1 with
    | true => exact trivial
    | false => exact ccRow_false hcc hn hctx hti hb1 hq hsat
  | false =>
    have h2 := ccRow_false hcc hn hctx hlen2 hb2 hq hsat
    have hnn : 0 ≤ dot ti q := by
      by_contra hneg
      have := hex.2 (by omega)
      omega
    cases b1 with
    | true => exact hnn
    | false =>
      have := ccRow_false hcc hn hctx hti hb1 hq hsat
      exact absurd hnn (by omega)

/-- without any divisibility hypothesis the `NEGATIVE` verdict is true -/
theorem newSign1_negative_sound {cc : Mat → Option Bool} (hcc : CCContract cc) {n : Nat} (hn : 0 < n)
    {ctx : Mat} (hctx : ∀ r ∈ ctx, r.length = n) {ti : Row} (hti : ti.length = n) {den : Int}
    {b1 b2 : Bool} (hb1 : ccRow cc ctx ti = some b1) (hneg : newSign1 b1 b2 = .negative)
    {q : List Int} (hq : ParamVec n q) (hsat : CtxSat ctx q) : dot ti q < 0 := by
  have _ := den
  cases b2 <;> cases b1 <;> simp [newSign1] at hneg
  exact ccRow_false hcc hn hctx hti hb1 hq hsat

/-- **soundness of the first refinement** (PIP_Tree.cc:2714-2753) under the EXTRA hypothesis `DenDivides`
    for the rows the loop visits: every cached sign that was true of `q` (a parameter vector of the context)
    is still true.  `_partial`: without `hdiv` the statement is false, see `refineMixed1_unsound_example`. -/
theorem refineMixed1_sound_partial {cc : Mat → Option Bool} (hcc : CCContract cc) {T : Tableau}
    (hden : 0 < T.den) {n : Nat} (hn : 0 < n) {ctx : Mat} (hctx : ∀ r ∈ ctx, r.length = n)
    {is : List Nat} (hrows : ∀ i ∈ is, (mrow T.t i).length = n)
    (hdiv : ∀ i ∈ is, DenDivides T.den (mrow T.t i))
    {start : Nat} {sg sg' : List RowSign} {fs fs' : Firsts}
    (h : refineMixed1 cc T ctx start is (sg, fs) = some (sg', fs'))
    {q : List Int} (hq : ParamVec n q) (hsat : CtxSat ctx q)
    (hinv : ∀ k, SignTrue (signGet sg k) (dot (mrow T.t k) q)) :
    ∀ k, SignTrue (signGet sg' k) (dot (mrow T.t k) q) :=
  refineMixed1_pointwise start (fun k s => SignTrue s (dot (mrow T.t k) q)) is sg fs sg' fs'
    (fun i hi _ _ _ hb1 hb2 =>
      newSign1_sound hcc hn hctx (hrows i hi) hden (hdiv i hi) hb1 hb2 hq hsat) h hinv

/-- what holds WITHOUT the divisibility hypothesis: the `NEGATIVE` signs are true -/
theorem refineMixed1_negative_sound {cc : Mat → Option Bool} (hcc : CCContract cc) {T : Tableau}
    {n : Nat} (hn : 0 < n) {ctx : Mat} (hctx : ∀ r ∈ ctx, r.length = n)
    {is : List Nat} (hrows : ∀ i ∈ is, (mrow T.t i).length = n)
    {start : Nat} {sg sg' : List RowSign} {fs fs' : Firsts}
    (h : refineMixed1 cc T ctx start is (sg, fs) = some (sg', fs'))
    {q : List Int} (hq : ParamVec n q) (hsat : CtxSat ctx q)
    (hinv : ∀ k, signGet sg k = .negative → dot (mrow T.t k) q < 0) :
    ∀ k, signGet sg' k = .negative → dot (mrow T.t k) q < 0 :=
  refineMixed1_pointwise start (fun k s => s = .negative → dot (mrow T.t k) q < 0) is sg fs sg' fs'
    (fun i hi _ _ b2 hb1 _ hneg =>
      newSign1_negative_sound (den := T.den) (b2 := b2) hcc hn hctx (hrows i hi) hb1 hneg hq hsat) h hinv

/-- frame: a sign that is not `MIXED` at entry is not touched; a row outside the list is not touched -/
theorem refineMixed1_frame {cc : Mat → Option Bool} {T : Tableau} {ctx : Mat} {is : List Nat}
    {start : Nat} {sg sg' : List RowSign} {fs fs' : Firsts}
    (h : refineMixed1 cc T ctx start is (sg, fs) = some (sg', fs')) :
    ∀ k, (signGet sg k ≠ .mixed ∨ k ∉ is) → signGet sg' k = signGet sg k := by
  have := refineMixed1_pointwise (cc := cc) (T := T) (ctx := ctx) start
    (fun k s => (signGet sg k ≠ .mixed ∨ k ∉ is) → s = signGet sg k) is sg fs sg' fs'
    (fun i hi hmix _ _ _ _ hor => by
      rcases hor with h1 | h1
      · exact absurd (hmix (Or.inl h1)).symm h1
      · exact absurd hi h1) h (fun k _ => rfl)
  exact this

/-! ### the second refinement -/

/-- **what the second refinement establishes** (PIP_Tree.cc:2755-2808), under `DenDivides`: a sign is either
    unchanged, or it went from `MIXED` to `NEGATIVE`, the row has a positive variable coefficient and
    `t_i(z) ≤ 0` — NOT `< 0` — on the whole context.  So `SignTrue .negative` (strict) is not what the code
    guarantees: `refineMixed2_not_strict_example`.  `_partial`: without `hdiv` even `≤ 0` fails
    (`refineMixed2_unsound_example`); what remains is `refineMixed2_weak_sound`. -/
theorem refineMixed2_sound_partial {cc : Mat → Option Bool} (hcc : CCContract cc) {T : Tableau}
    (hden : 0 < T.den) {n : Nat} (hn : 0 < n) {ctx : Mat} (hctx : ∀ r ∈ ctx, r.length = n)
    {is : List Nat} (hrows : ∀ i ∈ is, (mrow T.t i).length = n)
    (hdiv : ∀ i ∈ is, DenDivides T.den (mrow T.t i))
    {sg sg' : List RowSign} {fs fs' : Firsts}
    (h : refineMixed2 cc T ctx is (sg, fs) = some (sg', fs')) :
    ∀ k, signGet sg' k = signGet sg k ∨
      (signGet sg k = .mixed ∧ signGet sg' k = .negative ∧ hasPositive (mrow T.s k) = true ∧
        ∀ q, ParamVec n q → CtxSat ctx q → dot (mrow T.t k) q ≤ 0) := by
  refine refineMixed2_pointwise (cc := cc) (T := T) (ctx := ctx)
    (fun k s => s = signGet sg k ∨
      (signGet sg k = .mixed ∧ s = .negative ∧ hasPositive (mrow T.s k) = true ∧
        ∀ q, ParamVec n q → CtxSat ctx q → dot (mrow T.t k) q ≤ 0)) is sg fs sg' fs' ?_ h
    (fun k => Or.inl rfl)
  intro i hi hmix hp hb
  have hmix' : signGet sg i = .mixed := by
    rcases hmix with h1 | h1
    · exact h1.symm
    · exact h1.1
  refine Or.inr ⟨hmix', rfl, hp, ?_⟩
  intro q hq hsat
  have hti := hrows i hi
  have hne : mrow T.t i ≠ [] := by intro h0; rw [h0] at hti; simp at hti; omega
  have hlen2 : (strictRow (mrow T.t i) T.den).length = n := by rw [strictRow_length]; exact hti
  have h2 := ccRow_false hcc hn hctx hlen2 hb hq hsat
  have hex := strictRow_exact hden hq.2.1 hne (hdiv i hi)
  by_contra hpos
  have := hex.2 (by omega)
  omega

/-- what holds WITHOUT the divisibility hypothesis: a row turned `NEGATIVE` has `t_i(z) < den` on the
    context (i.e. `t_i(z)/den < 1`) -/
theorem refineMixed2_weak_sound {cc : Mat → Option Bool} (hcc : CCContract cc) {T : Tableau}
    (hden : 0 < T.den) {n : Nat} (hn : 0 < n) {ctx : Mat} (hctx : ∀ r ∈ ctx, r.length = n)
    {is : List Nat} (hrows : ∀ i ∈ is, (mrow T.t i).length = n)
    {sg sg' : List RowSign} {fs fs' : Firsts}
    (h : refineMixed2 cc T ctx is (sg, fs) = some (sg', fs')) :
    ∀ k, signGet sg' k = signGet sg k ∨
      (signGet sg k = .mixed ∧ signGet sg' k = .negative ∧ hasPositive (mrow T.s k) = true ∧
        ∀ q, ParamVec n q → CtxSat ctx q → dot (mrow T.t k) q < T.den) := by
  refine refineMixed2_pointwise (cc := cc) (T := T) (ctx := ctx)
    (fun k s => s = signGet sg k ∨
      (signGet sg k = .mixed ∧ s = .negative ∧ hasPositive (mrow T.s k) = true ∧
        ∀ q, ParamVec n q → CtxSat ctx q → dot (mrow T.t k) q < T.den)) is sg fs sg' fs' ?_ h
    (fun k => Or.inl rfl)
  intro i hi hmix hp hb
  have hmix' : signGet sg i = .mixed := by
    rcases hmix with h1 | h1
    · exact h1.symm
    · exact h1.1
  refine Or.inr ⟨hmix', rfl, hp, ?_⟩
  intro q hq hsat
  have hti := hrows i hi
  have hne : mrow T.t i ≠ [] := by intro h0; rw [h0] at hti; simp at hti; omega
  have hlen2 : (strictRow (mrow T.t i) T.den).length = n := by rw [strictRow_length]; exact hti
  have h2 := ccRow_false hcc hn hctx hlen2 hb hq hsat
  rw [strictRow_dot hq.2.1 hne] at h2
  have := roundDelta_bounds hden (rget (mrow T.t i) 0)
  omega

/-! ### concrete data: a tiny exact oracle and the counterexamples -/

/-- a parameter vector with one parameter -/
theorem paramVec_two {q : List Int} (h : ParamVec 2 q) : ∃ p, q = [1, p] ∧ 0 ≤ p := by
  obtain ⟨ps, rfl, hps⟩ := h.cons_form
  have hl := h.1
  match ps, hl, hps with
  | [p], _, hps => exact ⟨p, rfl, hps p (by simp)⟩

theorem ctxSat_iff_all (m : Mat) (q : List Int) : CtxSat m q ↔ (m.all fun r => decide (0 ≤ dot r q)) = true := by
  unfold CtxSat; simp

/-- an oracle answering exactly the listed matrices (any other query: out of fuel) -/
def tableCC (tbl : List (Mat × Bool)) : Mat → Option Bool :=
  fun m => (tbl.find? (fun e => e.1 == m)).map (·.2)

/-- the table oracle obeys the contract as soon as every listed answer is right -/
theorem tableCC_contract (tbl : List (Mat × Bool))
    (hok : ∀ e ∈ tbl, ∀ n, (∀ r ∈ e.1, r.length = n) → 0 < n →
      (e.2 = true ↔ ∃ q, ParamVec n q ∧ CtxSat e.1 q)) : CCContract (tableCC tbl) := by
  intro m n b hlen hn h
  unfold tableCC at h
  cases hf : tbl.find? (fun e => e.1 == m) with
  | none => rw [hf] at h; simp at h
  | some e =>
    rw [hf] at h
    simp only [Option.map_some, Option.some.injEq] at h
    have hmem := List.mem_of_find?_eq_some hf
    have heq : e.1 = m := by simpa using List.find?_some hf
    subst heq; subst h
    exact hok e hmem n hlen hn

/-- **the first refinement is unsound when `den` does not divide the parameter coefficients.**
    `den = 2`, one row `t = [0, -1]` (`t(z) = -p`, i.e. the variable is `-p/2`), context `1 - p ≥ 0`.
    `complement_assign` gives `p - 2 ≥ 0`, incompatible with the context, so the row is declared `POSITIVE`
    by ANY oracle obeying the contract; but `p = 1` is in the context and `t(z) = -1 < 0`. -/
def exT1 : Tableau := { s := [[1]], t := [[0, -1]], den := 2, ns := 1, nt := 2 }
def exCtx1 : Mat := [[1, -1]]

theorem refineMixed1_unsound_example (cc : Mat → Option Bool) (hcc : CCContract cc)
    (sg' : List RowSign) (fs' : Firsts)
    (h : refineMixed1 cc exT1 exCtx1 0 [0] ([.mixed], { mix := some 0 }) = some (sg', fs')) :
    signGet sg' 0 = .positive ∧ ParamVec 2 [1, 1] ∧ CtxSat exCtx1 [1, 1] ∧ dot (mrow exT1.t 0) [1, 1] < 0
      ∧ ¬ SignTrue (signGet sg' 0) (dot (mrow exT1.t 0) [1, 1]) := by
  have hctx : ∀ r ∈ exCtx1, r.length = 2 := by decide
  have hq1 : ParamVec 2 [1, 1] := ⟨rfl, rfl, by decide⟩
  have hq0 : ParamVec 2 [1, 0] := ⟨rfl, rfl, by decide⟩
  have hs1 : CtxSat exCtx1 [1, 1] := by rw [ctxSat_iff_all]; decide
  have hs0 : CtxSat exCtx1 [1, 0] := by rw [ctxSat_iff_all]; decide
  have hpos : signGet sg' 0 = .positive := by
    simp only [refineMixed1] at h
    rw [if_neg (by decide)] at h
    cases hb1 : ccRow cc exCtx1 (mrow exT1.t 0) with
    | none => rw [hb1] at h; simp at h
    | some b1 =>
      rw [hb1] at h
      cases hb2 : ccRow cc exCtx1 (complementAssign (mrow exT1.t 0) exT1.den) with
      | none => rw [hb2] at h; simp at h
      | some b2 =>
        rw [hb2] at h
        have e1 : b1 = true := by
          cases b1 with
          | true => rfl
          | false =>
            have := ccRow_false hcc (by decide) hctx (by decide) hb1 hq0 hs0
            exact absurd this (by decide)
        have e2 : b2 = false := by
          cases b2 with
          | false => rfl
          | true =>
            obtain ⟨q, hq, hs, hd⟩ := ccRow_true hcc (n := 2) (by decide) hctx (by decide) hb2
            obtain ⟨p, rfl, hp⟩ := paramVec_two hq
            have h1 : 0 ≤ dot [1, -1] [1, p] := hs [1, -1] (by decide)
            have h2 : 0 ≤ dot [-2, 1] [1, p] := hd
            simp only [dot_cons, dot_nil_left] at h1 h2
            omega
        subst e1; subst e2
        simp only [Option.some.injEq, Prod.mk.injEq] at h
        rw [← h.1]; decide
  refine ⟨hpos, hq1, hs1, by decide, ?_⟩
  rw [hpos]
  show ¬ (0 ≤ dot (mrow exT1.t 0) [1, 1])
  decide

/-- the oracle that answers exactly the two queries of the example -/
def exCC1 : Mat → Option Bool :=
  tableCC [([[1, -1], [0, -1]], true), ([[1, -1], [-2, 1]], false)]

theorem exCC1_contract : CCContract exCC1 := by
  apply tableCC_contract
  intro e he n hlen hn
  simp only [List.mem_cons, List.not_mem_nil, or_false] at he
  rcases he with rfl | rfl
  · have : n = 2 := (hlen [1, -1] (by decide)).symm
    subst this
    refine ⟨fun _ => ⟨[1, 0], ⟨rfl, rfl, by decide⟩, by rw [ctxSat_iff_all]; decide⟩, fun _ => rfl⟩
  · have : n = 2 := (hlen [1, -1] (by decide)).symm
    subst this
    refine ⟨(fun h => by cases h), ?_⟩
    rintro ⟨q, hq, hs⟩
    obtain ⟨p, rfl, hp⟩ := paramVec_two hq
    have h1 : 0 ≤ dot [1, -1] [1, p] := hs [1, -1] (by decide)
    have h2 : 0 ≤ dot [-2, 1] [1, p] := hs [-2, 1] (by decide)
    simp only [dot_cons, dot_nil_left] at h1 h2
    omega

/-- the example is not vacuous: with the exact table oracle the loop does answer, `POSITIVE` -/
example : (refineMixed1 exCC1 exT1 exCtx1 0 [0] ([.mixed], { mix := some 0 })).map (·.1) = some [.positive] := by
  decide

/-- same data with the context `p = 1` (`1 - p ≥ 0`, `p - 1 ≥ 0`): both queries are incompatible, the row is
    declared `ZERO`, its value is `-1` on the whole (non-empty) context -/
def exCtx1z : Mat := [[1, -1], [-1, 1]]
def exCC1z : Mat → Option Bool :=
  tableCC [([[1, -1], [-1, 1], [0, -1]], false), ([[1, -1], [-1, 1], [-2, 1]], false)]

theorem exCC1z_contract : CCContract exCC1z := by
  apply tableCC_contract
  intro e he n hlen hn
  simp only [List.mem_cons, List.not_mem_nil, or_false] at he
  rcases he with rfl | rfl
  · have : n = 2 := (hlen [1, -1] (by decide)).symm
    subst this
    refine ⟨(fun h => by cases h), ?_⟩
    rintro ⟨q, hq, hs⟩
    obtain ⟨p, rfl, hp⟩ := paramVec_two hq
    have h1 : 0 ≤ dot [-1, 1] [1, p] := hs [-1, 1] (by decide)
    have h2 : 0 ≤ dot [0, -1] [1, p] := hs [0, -1] (by decide)
    simp only [dot_cons, dot_nil_left] at h1 h2
    omega
  · have : n = 2 := (hlen [1, -1] (by decide)).symm
    subst this
    refine ⟨(fun h => by cases h), ?_⟩
    rintro ⟨q, hq, hs⟩
    obtain ⟨p, rfl, hp⟩ := paramVec_two hq
    have h1 : 0 ≤ dot [1, -1] [1, p] := hs [1, -1] (by decide)
    have h2 : 0 ≤ dot [-2, 1] [1, p] := hs [-2, 1] (by decide)
    simp only [dot_cons, dot_nil_left] at h1 h2
    omega

theorem refineMixed1_unsound_zero_example :
    CCContract exCC1z ∧
    (refineMixed1 exCC1z exT1 exCtx1z 0 [0] ([.mixed], { mix := some 0 })).map (·.1) = some [.zero] ∧
    ParamVec 2 [1, 1] ∧ CtxSat exCtx1z [1, 1] ∧ dot (mrow exT1.t 0) [1, 1] = -1 :=
  ⟨exCC1z_contract, by decide, ⟨rfl, rfl, by decide⟩, by rw [ctxSat_iff_all]; decide, by decide⟩

-- non-vacuity of `refineMixed1_sound_partial`: `den = 2` divides the parameter coefficient of `t = 1 - 2p`
def exT1ok : Tableau := { s := [[1]], t := [[1, -2]], den := 2, ns := 1, nt := 2 }
example : DenDivides exT1ok.den (mrow exT1ok.t 0) := by
  intro j hj
  match j, hj with
  | 1, _ => decide
  | (j + 2), _ => simp [rget, mrow, exT1ok]
example : complementAssign [1, -2] 2 = [-2, 2] := by decide

/-- **the `NEGATIVE` of the second refinement is weak**: `den = 1`, `t = -p`, empty context: `t(z) > 0`,
    i.e. `-p - 1 ≥ 0`, is incompatible, the row becomes `NEGATIVE`, but `t(z) = 0` at `p = 0`.
    (This is the very case `row_sign` refuses to call `NEGATIVE`, PIP_Tree.cc:2212-2218.) -/
def exT2w : Tableau := { s := [[1]], t := [[0, -1]], den := 1, ns := 1, nt := 2 }
def exCC2w : Mat → Option Bool := tableCC [([[-1, -1]], false)]

theorem exCC2w_contract : CCContract exCC2w := by
  apply tableCC_contract
  intro e he n hlen hn
  simp only [List.mem_cons, List.not_mem_nil, or_false] at he
  subst he
  have : n = 2 := (hlen [-1, -1] (by decide)).symm
  subst this
  refine ⟨(fun h => by cases h), ?_⟩
  rintro ⟨q, hq, hs⟩
  obtain ⟨p, rfl, hp⟩ := paramVec_two hq
  have h1 : 0 ≤ dot [-1, -1] [1, p] := hs [-1, -1] (by decide)
  simp only [dot_cons, dot_nil_left] at h1
  omega

theorem refineMixed2_not_strict_example :
    CCContract exCC2w ∧ DenDivides exT2w.den (mrow exT2w.t 0) ∧
    (refineMixed2 exCC2w exT2w [] [0] ([.mixed], { mix := some 0 })).map (·.1) = some [.negative] ∧
    ParamVec 2 [1, 0] ∧ CtxSat [] [1, 0] ∧ dot (mrow exT2w.t 0) [1, 0] = 0 ∧
    ¬ SignTrue .negative (dot (mrow exT2w.t 0) [1, 0]) := by
  refine ⟨exCC2w_contract, ?_, by decide, ⟨rfl, rfl, by decide⟩, by rw [ctxSat_iff_all]; decide,
    by decide, (by show ¬ (dot (mrow exT2w.t 0) [1, 0] < 0); decide)⟩
  intro j _
  show (1 : Int) ∣ _
  exact Int.one_dvd _

/-- **the second refinement is unsound when `den` does not divide the parameter coefficients.**
    `den = 3`, `t = [-1, 1]` (`t(z) = p - 1`), context `2 - p ≥ 0`.  The row `t_i(z) > 0` is built as
    `p - 3 ≥ 0`, incompatible with the context: the row is declared `NEGATIVE` by ANY oracle obeying the
    contract; but `p = 2` is in the context and `t(z) = 1 > 0`. -/
def exT2 : Tableau := { s := [[1]], t := [[-1, 1]], den := 3, ns := 1, nt := 2 }
def exCtx2 : Mat := [[2, -1]]

theorem refineMixed2_unsound_example (cc : Mat → Option Bool) (hcc : CCContract cc)
    (sg' : List RowSign) (fs' : Firsts)
    (h : refineMixed2 cc exT2 exCtx2 [0] ([.mixed], { mix := some 0 }) = some (sg', fs')) :
    signGet sg' 0 = .negative ∧ ParamVec 2 [1, 2] ∧ CtxSat exCtx2 [1, 2] ∧ dot (mrow exT2.t 0) [1, 2] = 1 := by
  have hctx : ∀ r ∈ exCtx2, r.length = 2 := by decide
  refine ⟨?_, ⟨rfl, rfl, by decide⟩, by rw [ctxSat_iff_all]; decide, by decide⟩
  simp only [refineMixed2] at h
  rw [if_neg (by decide)] at h
  rw [if_neg (by decide)] at h
  cases hb : ccRow cc exCtx2 (strictRow (mrow exT2.t 0) exT2.den) with
  | none => rw [hb] at h; simp at h
  | some b =>
    rw [hb] at h
    have e : b = false := by
      cases b with
      | false => rfl
      | true =>
        obtain ⟨q, hq, hs, hd⟩ := ccRow_true hcc (n := 2) (by decide) hctx (by decide) hb
        obtain ⟨p, rfl, hp⟩ := paramVec_two hq
        have h1 : 0 ≤ dot [2, -1] [1, p] := hs [2, -1] (by decide)
        have h2 : 0 ≤ dot [-3, 1] [1, p] := hd
        simp only [dot_cons, dot_nil_left] at h1 h2
        omega
    subst e
    simp only [Option.some.injEq, Prod.mk.injEq] at h
    rw [← h.1]; decide

/-- the same defect through the WHOLE sign analysis of one iteration: the row is syntactically mixed, the
    first refinement leaves it mixed (both `p - 1 ≥ 0` and `-p ≥ 0` are compatible with `p ≤ 2`), the second
    one declares it `NEGATIVE`; value `+1` at `p = 2`. -/
def exNd2 : SolNode :=
  { tab := exT2, basis := [true, false], mapping := [0, 0], varRow := [1], varColumn := [0],
    sign := [.unknown], big := none, arts := [], cons := [] }
def exCC2 : Mat → Option Bool :=
  tableCC [([[2, -1], [-1, 1]], true), ([[2, -1], [0, -1]], true), ([[2, -1], [-3, 1]], false)]

theorem exCC2_contract : CCContract exCC2 := by
  apply tableCC_contract
  intro e he n hlen hn
  simp only [List.mem_cons, List.not_mem_nil, or_false] at he
  rcases he with rfl | rfl | rfl
  · have : n = 2 := (hlen [2, -1] (by decide)).symm
    subst this
    refine ⟨fun _ => ⟨[1, 1], ⟨rfl, rfl, by decide⟩, by rw [ctxSat_iff_all]; decide⟩, fun _ => rfl⟩
  · have : n = 2 := (hlen [2, -1] (by decide)).symm
    subst this
    refine ⟨fun _ => ⟨[1, 0], ⟨rfl, rfl, by decide⟩, by rw [ctxSat_iff_all]; decide⟩, fun _ => rfl⟩
  · have : n = 2 := (hlen [2, -1] (by decide)).symm
    subst this
    refine ⟨(fun h => by cases h), ?_⟩
    rintro ⟨q, hq, hs⟩
    obtain ⟨p, rfl, hp⟩ := paramVec_two hq
    have h1 : 0 ≤ dot [2, -1] [1, p] := hs [2, -1] (by decide)
    have h2 : 0 ≤ dot [-3, 1] [1, p] := hs [-3, 1] (by decide)
    simp only [dot_cons, dot_nil_left] at h1 h2
    omega

theorem signAnalysis_unsound_example :
    CCContract exCC2 ∧ (signAnalysis exCC2 exNd2 exCtx2).map (·.1) = some [.negative] ∧
    ParamVec 2 [1, 2] ∧ CtxSat exCtx2 [1, 2] ∧ dot (mrow exNd2.tab.t 0) [1, 2] = 1 :=
  ⟨exCC2_contract, by decide, ⟨rfl, rfl, by decide⟩, by rw [ctxSat_iff_all]; decide, by decide⟩

end PPLV.PIPCore
