import PPLV.Solver.PendingProofsIncr13
import PPLV.Solver.PendingProofsTrivial
import PPLV.Solver.PendingProofsE2E4

/-!
# C06 stage 3 — the incremental call that ends without tableau rows (`ppcTrivial` answers itself)
-/
namespace PPLV.Solver.Pend
open PPLV.Lin PPLV.Solver PPLV.Solver.Tab

/-- the branch without rows, from the two halves of "solutions = encodings" -/
theorem trivial_gen (C : InsCtx) (cs : List ICon) (hlen : ∀ c ∈ cs, c.coeffs.length ≤ C.n) (B : Nat)
    (hjB : 1 + C.j ≤ B)
    (core1 : ∀ y : Val, y 0 = 1 → (∀ j, 1 ≤ j → 0 ≤ y j) → (∀ j, B ≤ j → y j = 0) → csSem cs (proj C.M y))
    (core2 : ∀ x, csSem cs x → ∃ y : Val, (∀ j, 1 ≤ j → 0 ≤ y j) ∧ ∀ i, i < C.n → proj C.M y i = x i)
    (obj : LinExpr) (mx : Bool) (hobj : obj.coeffs.length ≤ C.n) :
    csSem cs Val.zero ∧
    (isUnboundedObjFunction obj C.M mx = false →
      ∀ x, csSem cs x → dot (obj.coeffs.map fun a => if mx then a else -a) x ≤ 0) ∧
    (isUnboundedObjFunction obj C.M mx = true →
      ∀ B : Rat, ∃ x, csSem cs x ∧ B < dot (obj.coeffs.map fun a => if mx then a else -a) x) := by
  have one : ∀ i, i < C.n → ∀ neg : Bool, (neg = true → (C.M.getD (i+1) (0, 0)).2 ≠ 0) → ∀ t : Rat, 0 ≤ t →
      csSem cs (fun u => if u = i then (if neg then -t else t) else 0) := by
    intro i hi neg hneg t ht
    obtain ⟨b1, b2, -, b4⟩ := C.hM.cols i hi
    set col := (if neg then (C.M.getD (i+1) (0, 0)).2 else (C.M.getD (i+1) (0, 0)).1) with hcol
    have hcolpos : 1 ≤ col ∧ col < B := by
      rw [hcol]
      cases neg
      · simp only [Bool.false_eq_true, if_false]; unfold hiCol at b4; split at b4 <;> omega
      · simp only [if_true]
        have hm := hneg rfl
        unfold hiCol at b4; rw [if_neg hm] at b4; omega
    have := core1 (oneCol col t) (by simp [oneCol]) (fun j hj => by
        unfold oneCol; rw [if_neg (by omega)]; split
        · exact ht
        · exact le_refl _) (fun j h1 => by
        unfold oneCol; rw [if_neg (by omega), if_neg (by omega)])
    exact (csSem_congr cs C.n hlen _ _ (C.proj_oneCol i hi neg hneg t)).mp this
  have hzero : csSem cs Val.zero := by
    by_cases hn : 0 < C.n
    · have := one 0 hn false (fun h => by cases h) 0 (le_refl _)
      exact (csSem_congr cs C.n hlen _ _ (fun u _ => by simp [Val.zero])).mp this
    · have := core1 (oneCol 0 0) (by simp [oneCol]) (fun j hj => by unfold oneCol; rw [if_neg (by omega)]; split <;> exact le_refl _)
        (fun j h1 => by unfold oneCol; rw [if_neg (by omega)]; split <;> rfl)
      exact (csSem_congr cs C.n hlen _ _ (fun u hu => by omega)).mp this
  set sg := obj.coeffs.map (fun a => if mx then a else -a) with hsg
  have hsgget : ∀ i, sg.getD i 0 = if mx then obj.coeffs.getD i 0 else - obj.coeffs.getD i 0 := by
    intro i
    rw [hsg, List.getD_eq_getElem?_getD, List.getElem?_map, List.getD_eq_getElem?_getD]
    cases obj.coeffs[i]? with
    | none => cases mx <;> simp
    | some a => rfl
  refine ⟨hzero, fun hunb x hx => ?_, fun hunb B => ?_⟩
  · obtain ⟨y, y2, y5⟩ := core2 x hx
    apply (dot_nonpos_terms sg x (fun i => ?_)).1
    by_cases hi : i < obj.coeffs.length
    · have hin : i < C.n := by omega
      have hall := List.any_eq_false.mp hunb i (List.mem_range.mpr hi)
      simp only [Bool.and_eq_true, bne_iff_ne, ne_eq, Bool.or_eq_true, not_and, not_or] at hall
      by_cases hc : obj.coeffs.getD i 0 = 0
      · rw [hsgget, hc]; cases mx <;> simp
      · obtain ⟨hm2, hsign⟩ := hall hc
        have hm2' : (C.M.getD (i+1) (0, 0)).2 = 0 := by simpa using hm2
        have hxi : 0 ≤ x i := by
          rw [← y5 i hin]
          unfold proj
          have : ((C.M.getD (i+1) (0, 0)).2 != 0) = false := by rw [hm2']; rfl
          simp only [this, Bool.false_eq_true, if_false, sub_zero]
          exact y2 _ (C.hM.cols i hin).1
        rw [hsgget]
        cases mx
        · simp only [Bool.false_eq_true, if_false, decide_eq_true_eq, not_lt] at hsign ⊢
          have : ((-(obj.coeffs.getD i 0) : Int) : Rat) ≤ 0 := by exact_mod_cast (by omega : -(obj.coeffs.getD i 0) ≤ 0)
          exact mul_nonpos_of_nonpos_of_nonneg this hxi
        · simp only [if_true, decide_eq_true_eq, not_lt] at hsign ⊢
          have : ((obj.coeffs.getD i 0 : Int) : Rat) ≤ 0 := by exact_mod_cast hsign
          exact mul_nonpos_of_nonpos_of_nonneg this hxi
    · have : sg.getD i 0 = 0 := by
        rw [hsgget, List.getD_eq_getElem?_getD, List.getElem?_eq_none (by omega)]; cases mx <;> simp
      rw [this]; simp
  · obtain ⟨i, hi, hcond⟩ := List.any_eq_true.mp hunb
    have hi' := List.mem_range.mp hi
    have hin : i < C.n := by omega
    simp only [Bool.and_eq_true, bne_iff_ne, ne_eq, Bool.or_eq_true] at hcond
    obtain ⟨hc, hdir⟩ := hcond
    have hsgi : sg.getD i 0 ≠ 0 := by
      rw [hsgget]
      cases mx
      · simp only [Bool.false_eq_true, if_false]; omega
      · simp only [if_true]; exact hc
    by_cases hfav : 0 < sg.getD i 0
    · set t : Rat := max 0 (B / ((sg.getD i 0 : Int) : Rat) + 1) with ht
      have hfq : (0 : Rat) < ((sg.getD i 0 : Int) : Rat) := by exact_mod_cast hfav
      refine ⟨_, one i hin false (fun h => by cases h) t (le_max_left _ _), ?_⟩
      have hval : (fun u => if u = i then (if false = true then -t else t) else (0 : Rat)) = Val.zero.update i t := by
        funext u; simp [Val.update, Val.zero]
      rw [hval, dot_unit_val]
      have h2 : B / ((sg.getD i 0 : Int) : Rat) + 1 ≤ t := le_max_right _ _
      have h3 := mul_le_mul_of_nonneg_left h2 (le_of_lt hfq)
      have h4 : ((sg.getD i 0 : Int) : Rat) * (B / ((sg.getD i 0 : Int) : Rat)) = B := by field_simp
      nlinarith
    · have hneg : sg.getD i 0 < 0 := by omega
      have hsplit : (C.M.getD (i+1) (0, 0)).2 ≠ 0 := by
        rcases hdir with h | h
        · simpa using h
        · exfalso
          rw [hsgget] at hneg
          cases mx
          · simp only [Bool.false_eq_true, if_false, decide_eq_true_eq] at h hneg; omega
          · simp only [if_true, decide_eq_true_eq] at h hneg; omega
      have hnq : ((sg.getD i 0 : Int) : Rat) < 0 := by exact_mod_cast hneg
      set t : Rat := max 0 (B / (-((sg.getD i 0 : Int) : Rat)) + 1) with ht
      refine ⟨_, one i hin true (fun _ => hsplit) t (le_max_left _ _), ?_⟩
      have hval : (fun u => if u = i then (if true = true then -t else t) else (0 : Rat)) = Val.zero.update i (-t) := by
        funext u; simp [Val.update, Val.zero]
      rw [hval, dot_unit_val]
      have h2 : B / (-((sg.getD i 0 : Int) : Rat)) + 1 ≤ t := le_max_right _ _
      have hpos : (0 : Rat) < -((sg.getD i 0 : Int) : Rat) := by linarith
      have h3 := mul_le_mul_of_nonneg_left h2 (le_of_lt hpos)
      have h4 : -((sg.getD i 0 : Int) : Rat) * (B / (-((sg.getD i 0 : Int) : Rat))) = B := by field_simp
      nlinarith

/-- the `.done` answers of `ppcTrivial` for a problem with variables -/
theorem ppcTrivial_done_cases (s0 sd : LPState) (b e : Nat) (hn : 0 < s0.external_space_dim)
    (h : ppcTrivial s0 b e = .done sd) :
    s0.tableau = [] ∧
    ((isUnboundedObjFunction s0.obj s0.mapping s0.maximize = true ∧
        sd = { s0 with status := .UNBOUNDED, last_generator := ⟨zeros s0.external_space_dim, 1⟩ }) ∨
     (isUnboundedObjFunction s0.obj s0.mapping s0.maximize = false ∧
        sd = { s0 with status := .OPTIMIZED, last_generator := ⟨zeros s0.external_space_dim, 1⟩ })) := by
  unfold ppcTrivial at h
  have h0 : (s0.external_space_dim == 0) = false := by simp; omega
  rw [h0] at h
  simp only [Bool.false_eq_true, if_false] at h
  split at h
  swap
  · cases h
  rename_i hlen
  have hnil : s0.tableau = [] := by
    cases ht : s0.tableau with
    | nil => rfl
    | cons a l => rw [ht] at hlen; simp at hlen
  refine ⟨hnil, ?_⟩
  by_cases hunb : isUnboundedObjFunction s0.obj s0.mapping s0.maximize = true
  · rw [if_pos hunb] at h
    simp only [Setup.done.injEq] at h
    exact Or.inl ⟨hunb, h.symm⟩
  · rw [if_neg hunb] at h
    simp only [Setup.done.injEq] at h
    exact Or.inr ⟨by simpa using hunb, h.symm⟩

end PPLV.Solver.Pend
