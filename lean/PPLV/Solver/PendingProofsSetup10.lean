import PPLV.Solver.PendingProofsSetup9

/-!
# C06 stage 3 — the tableau set up for a fresh problem holds a feasible basis (`CanonTB`)

`setup_canonTB`: with the flags only on inequalities that hold at the origin (`SatOK`) and as many artificial
columns reserved as rows not worked out (`numCols = SL + (N − #flags) + 1`, the arithmetic of :803–:822), the
tableau after insertion, sign normalisation and the artificial columns is canonical and feasible: a worked row's
basic variable is its slack (value = the inhomogeneous term ≥ 0), every other row's is its artificial column
(value = −t_0 ≥ 0 after the sign normalisation); `end_artificials = numCols − 1`; the first-phase cost row is −1
exactly on the artificial columns `[SL, numCols − 1)`.
-/
namespace PPLV.Solver.Pend
open PPLV.Lin PPLV.Solver.Tab

theorem normRow_get (r : Row) (col : Nat) :
    (normRow r).get col = if r.get 0 > 0 then -(r.get col) else r.get col := by
  unfold normRow
  split
  · unfold Row.get
    rw [List.getD_eq_getElem?_getD, List.getElem?_map, List.getD_eq_getElem?_getD]
    cases r[col]? <;> simp
  · rfl

namespace InsCtx
variable (C : InsCtx)

/-- the output of the artificial-column loop on the data of `C` -/
def artOut : List Row × Row × List Nat × Nat :=
  ppcArtificials [] 0 C.N C.fin.worked (ppcNormalizeSigns C.fin.T) (zeros C.numCols) C.fin.base C.SL

theorem artOut_spec (hsat : C.SatOK) (hlenS : C.isSat.length = C.pend.length)
    (hnc : C.numCols = C.SL + (C.N - C.isSat.count true) + 1) :
    ArtOut C.N C.numCols C.SL C.fin.worked (ppcNormalizeSigns C.fin.T) C.fin.base C.artOut := by
  obtain ⟨inv, invS⟩ := C.insert_specS hsat
  have hk : C.fin.k = 0 := C.fin_k
  have hsl : C.fin.slackIndex = C.V := by have := inv.sl_eq; simpa using this
  apply artificials_struct
  · rw [normalize_length]; exact inv.lenT
  · exact inv.lenB
  · intro r hr
    rw [normalize_getD, normRow_length]
    exact (inv.rows r (by omega) hr).1
  · intro r hr col hcol
    rw [normalize_getD, normRow_get]
    have := (inv.rows r (by omega) hr).2 col (Or.inr hcol)
    split
    · rw [this]; rfl
    · exact this
  · -- the count
    have h1 : remCount C.N C.fin.worked 0 = C.N - C.fin.worked.count true := by
      unfold remCount
      rw [List.drop_zero, ← invS.w_len, countP_not_range]
    have h2 : C.fin.worked.count true = C.isSat.count true := by
      rw [invS.cnt]
      unfold wcount
      rw [List.drop_zero, ← hlenS, count_true_range]
    rw [h1, h2, hnc]; omega
  · rw [hnc]; omega

/-- **the set-up tableau of a fresh problem is canonical and feasible** -/
theorem setup_canonTB (hsat : C.SatOK) (hlenS : C.isSat.length = C.pend.length)
    (hnc : C.numCols = C.SL + (C.N - C.isSat.count true) + 1) :
    CanonTB C.artOut.1 C.artOut.2.2.1 C.numCols := by
  obtain ⟨inv, invS⟩ := C.insert_specS hsat
  have art := C.artOut_spec hsat hlenS hnc
  have hk : C.fin.k = 0 := C.fin_k
  have hsl : C.fin.slackIndex = C.V := by have := inv.sl_eq; simpa using this
  have hV1 : 1 ≤ C.V := by unfold V; omega
  have hSLV : C.V ≤ C.SL := by unfold SL; omega
  have hSLn : C.SL ≤ C.numCols - 1 := by rw [hnc]; omega
  -- facts about a worked row
  have worked_facts : ∀ r, r < C.N → C.fin.worked.getD r false = true →
      C.V ≤ C.fin.base.getD r 0 ∧ C.fin.base.getD r 0 < C.SL ∧
      (C.fin.T.getD r []).get (C.fin.base.getD r 0) = -1 ∧ 0 ≤ (C.fin.T.getD r []).get 0 := by
    intro r hr hw
    have hb := (invS.w_iff r (by omega) hr).mp hw
    obtain ⟨o1, o2⟩ := invS.own r (by omega) hr hb
    rcases inv.base r hr with h0 | ⟨h1, h2⟩
    · exact absurd h0 hb
    · exact ⟨by rw [← hsl]; exact h1, h2, o1, o2⟩
  have zero_hi : ∀ r, r < C.N → ∀ col, C.SL ≤ col → ((ppcNormalizeSigns C.fin.T).getD r []).get col = 0 := by
    intro r hr col hcol
    rw [normalize_getD, normRow_get]
    have := (inv.rows r (by omega) hr).2 col (Or.inr hcol)
    split
    · rw [this]; rfl
    · exact this
  have hN : C.artOut.1.length = C.N := art.lenT
  constructor
  · rw [art.lenB, art.lenT]
  · rw [hnc]; omega
  · intro r hr; rw [hN] at hr; exact art.rowLen r hr
  · intro r hr
    rw [hN] at hr
    cases hw : C.fin.worked.getD r false
    · obtain ⟨a1, a2, -, -⟩ := art.art r hr hw
      exact ⟨by omega, a2⟩
    · obtain ⟨-, k2⟩ := art.keep r hr hw
      obtain ⟨w1, w2, -, -⟩ := worked_facts r hr hw
      rw [k2]; omega
  · intro r hr
    rw [hN] at hr
    cases hw : C.fin.worked.getD r false
    · obtain ⟨-, -, a3, -⟩ := art.art r hr hw
      rw [a3]; decide
    · obtain ⟨k1, k2⟩ := art.keep r hr hw
      obtain ⟨-, -, w3, -⟩ := worked_facts r hr hw
      rw [k1, k2, normalize_getD, normRow_get, w3]
      split <;> decide
  · intro i j hi hj hij
    rw [hN] at hi hj
    cases hwi : C.fin.worked.getD i false
    · exact art.other i j hi hj hij hwi
    · obtain ⟨-, ki2⟩ := art.keep i hi hwi
      obtain ⟨w1, w2, -, -⟩ := worked_facts i hi hwi
      have hbi := (invS.w_iff i (by omega) hi).mp hwi
      have hz : ((ppcNormalizeSigns C.fin.T).getD j []).get (C.fin.base.getD i 0) = 0 := by
        rw [normalize_getD, normRow_get]
        have := invS.other i j (by omega) hi (by omega) hj hij hbi
        split
        · rw [this]; rfl
        · exact this
      rw [ki2]
      cases hwj : C.fin.worked.getD j false
      · obtain ⟨a1, -, -, a4⟩ := art.art j hj hwj
        rw [a4 _ (by omega)]; exact hz
      · rw [(art.keep j hj hwj).1]; exact hz
  · intro r hr
    rw [hN] at hr
    cases hw : C.fin.worked.getD r false
    · obtain ⟨-, a2, -, a4⟩ := art.art r hr hw
      rw [a4 _ (by omega)]; exact zero_hi r hr _ hSLn
    · rw [(art.keep r hr hw).1]; exact zero_hi r hr _ hSLn
  · intro r hr
    rw [hN] at hr
    cases hw : C.fin.worked.getD r false
    · obtain ⟨a1, -, a3, a4⟩ := art.art r hr hw
      rw [a3, a4 0 (by omega), normalize_getD, normRow_get]
      generalize (C.fin.T.getD r []).get 0 = k0
      by_cases hpos : k0 > 0
      · rw [if_pos hpos]
        have : (0 : Rat) < (k0 : Rat) := by exact_mod_cast hpos
        push_cast; rw [div_one]; linarith
      · rw [if_neg hpos]
        have : (k0 : Rat) ≤ 0 := by exact_mod_cast (not_lt.mp hpos)
        push_cast; rw [div_one]; linarith
    · obtain ⟨k1, k2⟩ := art.keep r hr hw
      obtain ⟨w1, -, w3, w4⟩ := worked_facts r hr hw
      rw [k1, k2, normalize_getD, normRow_get, normRow_get, w3]
      generalize (C.fin.T.getD r []).get 0 = k0 at w4 ⊢
      by_cases hpos : k0 > 0
      · rw [if_pos hpos, if_pos hpos]
        have : (0 : Rat) < (k0 : Rat) := by exact_mod_cast hpos
        push_cast; norm_num; linarith
      · rw [if_neg hpos, if_neg hpos]
        have h0 : k0 = 0 := by omega
        rw [h0]; norm_num

end InsCtx

end PPLV.Solver.Pend
