import PPLV.Solver.PendingProofsMerge2

/-!
# C06 stage 3 — package A (`merge_split_variable` :428, loop :734–:745): `mergeSpec : MergeSpec`

Part 2: the semantics of one merge (`proj_mergeMap`, `negZero_step`, `bsol_step`), `mergeSplitVariable` in terms of
the component functions of part 1, the loop invariant `MInv` (closed under one merge, `minv_step`; holds initially,
`minv_init`) and the theorem.
-/
namespace PPLV.Solver.Pend
open PPLV.Lin PPLV.Solver PPLV.Solver.Tab

/-! ### projections -/

theorem mergeMap_getD_self {M : List (Nat × Nat)} {n nc : Nat} (h : MapS M n nc) (v : Nat) (hv : v < n)
    (hq : (M.getD (v+1) (0, 0)).2 ≠ 0) :
    (mergeMap M v).getD (v+1) (0, 0) = ((M.getD (v+1) (0, 0)).1, 0) := by
  obtain ⟨o1, o2, -, -⟩ := h.others v hv hq
  rw [mergeMap_getD M v _ (by rw [h.len]; omega), if_pos rfl]
  unfold shiftPair shiftDown; simp only; rw [if_neg (by omega), if_neg (by omega)]

theorem mergeMap_getD_other {M : List (Nat × Nat)} {n nc : Nat} (h : MapS M n nc) (v : Nat) (hv : v < n)
    (u : Nat) (hu : u ≠ v) :
    (mergeMap M v).getD (u+1) (0, 0) = shiftPair (M.getD (v+1) (0, 0)).2 (M.getD (u+1) (0, 0)) := by
  rw [mergeMap_getD M v _ (by rw [h.len]; omega), if_neg (by omega)]

/-- the columns of another variable are not the removed one -/
theorem MapS.other_ne {M : List (Nat × Nat)} {n nc : Nat} (h : MapS M n nc) (v : Nat) (hv : v < n)
    (hq : (M.getD (v+1) (0, 0)).2 ≠ 0) (u : Nat) (hu : u < n) (huv : u ≠ v) :
    (M.getD (u+1) (0, 0)).1 ≠ (M.getD (v+1) (0, 0)).2 ∧ (M.getD (u+1) (0, 0)).2 ≠ (M.getD (v+1) (0, 0)).2 := by
  obtain ⟨o1, o2, o3, o4⟩ := h.others v hv hq
  obtain ⟨c1, c2, c3⟩ := h.cols u hu
  have o := o4 u hu huv
  revert c1 c2 c3 o o1 o2 o3 hq
  generalize M.getD (u+1) (0, 0) = m
  generalize M.getD (v+1) (0, 0) = mv
  obtain ⟨a, b⟩ := m
  obtain ⟨p, q⟩ := mv
  simp only [hiCol]
  intro hq o1 o2 o3 c1 c2 c3 o
  constructor <;> (split_ifs at * <;> omega)

/-- the point encoded by a valuation of the shortened tableau under the new mapping is the point encoded by the
    valuation with 0 inserted under the old one -/
theorem proj_mergeMap {M : List (Nat × Nat)} {n nc : Nat} (h : MapS M n nc) (v : Nat) (hv : v < n)
    (hq : (M.getD (v+1) (0, 0)).2 ≠ 0) (y : Val) :
    proj (mergeMap M v) y = proj M (insertZero (M.getD (v+1) (0, 0)).2 y) := by
  obtain ⟨o1, o2, o3, -⟩ := h.others v hv hq
  funext u
  by_cases hu : u < n
  · by_cases huv : u = v
    · subst huv
      unfold proj
      simp only
      rw [mergeMap_getD_self h u hv hq, insertZero_at, insertZero_ne _ _ _ (by omega)]
      have : shiftDown (M.getD (u+1) (0, 0)).2 (M.getD (u+1) (0, 0)).1 = (M.getD (u+1) (0, 0)).1 := by
        unfold shiftDown; rw [if_neg (by omega)]
      rw [this]
      simp
    · obtain ⟨n1, n2⟩ := h.other_ne v hv hq u hu huv
      unfold proj
      simp only
      rw [mergeMap_getD_other h v hv u huv, insertZero_ne _ _ _ n1]
      unfold shiftPair
      simp only
      by_cases hb : (M.getD (u+1) (0, 0)).2 = 0
      · rw [hb, shiftDown_zero]; simp
      · have hb' : shiftDown (M.getD (v+1) (0, 0)).2 (M.getD (u+1) (0, 0)).2 ≠ 0 :=
          fun h0 => hb ((shiftDown_eq_zero _ _ (by omega)).mp h0)
        rw [insertZero_ne _ _ _ n2]
        have e1 : (shiftDown (M.getD (v+1) (0, 0)).2 (M.getD (u+1) (0, 0)).2 != 0) = true := by simpa using hb'
        have e2 : ((M.getD (u+1) (0, 0)).2 != 0) = true := by simpa using hb
        rw [e1, e2]
  · have e1 : M.getD (u+1) (0, 0) = (0, 0) := by
      rw [List.getD_eq_getElem?_getD, List.getElem?_eq_none (by rw [h.len]; omega)]; rfl
    have e2 : (mergeMap M v).getD (u+1) (0, 0) = (0, 0) := by
      rw [List.getD_eq_getElem?_getD, List.getElem?_eq_none (by rw [mergeMap_length, h.len]; omega)]; rfl
    unfold proj
    simp only
    rw [e1, e2, insertZero_ne _ _ _ (by simp only; omega), shiftDown_zero]

theorem negZero_step {M : List (Nat × Nat)} {n nc : Nat} (h : MapS M n nc) (v : Nat) (hv : v < n)
    (hq : (M.getD (v+1) (0, 0)).2 ≠ 0) (x y : Val) (hN : NegZero M n x y) :
    NegZero (mergeMap M v) n x (deleteAt (M.getD (v+1) (0, 0)).2 y) := by
  obtain ⟨o1, o2, o3, -⟩ := h.others v hv hq
  intro u hu hne hx
  have huv : u ≠ v := by
    intro e; subst e
    rw [mergeMap_getD_self h u hv hq] at hne; exact hne rfl
  obtain ⟨-, n2⟩ := h.other_ne v hv hq u hu huv
  rw [mergeMap_getD_other h v hv u huv] at hne ⊢
  unfold shiftPair at hne ⊢
  simp only at hne ⊢
  have hb : (M.getD (u+1) (0, 0)).2 ≠ 0 := fun h0 => hne (by rw [h0, shiftDown_zero])
  unfold deleteAt
  rw [unshift_shiftDown _ _ n2]
  exact hN u hu hb hx

/-! ### the basic solution when the removed column is not basic -/

theorem rowOf_eq_none {base : List Nat} {j : Nat} (h : ∀ i, i < base.length → base.getD i 0 ≠ j) :
    rowOf base j = none := by
  unfold rowOf
  apply List.find?_eq_none.mpr
  intro i hi
  simpa using h i (List.mem_range.mp hi)

theorem find?_congr' {α : Type} (l : List α) (p q : α → Bool) (h : ∀ x, x ∈ l → p x = q x) :
    l.find? p = l.find? q := by
  induction l with
  | nil => rfl
  | cons a l ih =>
    simp only [List.find?_cons]
    rw [h a (by simp), ih (fun x hx => h x (by simp [hx]))]

theorem bsol_step (T : List Row) (base : List Nat) (q : Nat) (hq1 : 1 ≤ q)
    (hne : ∀ i, i < base.length → base.getD i 0 ≠ q) :
    bsol T base = insertZero q (bsol (eraseCol T q) (base.map (shiftDown q))) := by
  have key : ∀ j', bsol (eraseCol T q) (base.map (shiftDown q)) j' = bsol T base (unshift q j') := by
    intro j'
    unfold bsol
    by_cases h0 : j' = 0
    · rw [if_pos h0, h0, unshift_zero q hq1, if_pos rfl]
    · have h0' : unshift q j' ≠ 0 := by unfold unshift; split_ifs <;> omega
      rw [if_neg h0, if_neg h0']
      have hr : rowOf (base.map (shiftDown q)) j' = rowOf base (unshift q j') := by
        unfold rowOf
        rw [List.length_map]
        apply find?_congr'
        intro i hi
        have hi' := List.mem_range.mp hi
        rw [getD_map_gen base (shiftDown q) 0 (shiftDown_zero q) i]
        have hb := hne i hi'
        have e1 := unshift_shiftDown q _ hb
        have e2 : shiftDown q (unshift q j') = j' := by unfold unshift shiftDown; split_ifs <;> omega
        by_cases hc : base.getD i 0 = unshift q j'
        · have : shiftDown q (base.getD i 0) = j' := by rw [hc, e2]
          rw [this, hc]; simp
        · have : shiftDown q (base.getD i 0) ≠ j' := fun h => hc (by rw [← e1, h])
          rw [beq_false_of_ne this, beq_false_of_ne hc]
      rw [hr]
      cases rowOf base (unshift q j') with
      | none => rfl
      | some i =>
        simp only
        rw [eraseCol_get, eraseCol_get, unshift_zero q hq1]
  funext j
  by_cases hj : j = q
  · rw [hj, insertZero_at]
    unfold bsol
    rw [if_neg (by omega), rowOf_eq_none hne]
  · rw [insertZero_ne q j _ hj, key, unshift_shiftDown q j hj]

/-! ### `merge_split_variable` through the component functions -/

theorem mergeSplitVariable_eq (s : LPState) (v : Nat) :
    mergeSplitVariable s v =
      ({ s with tableau := eraseCol s.tableau (s.mapping.getD (1 + v) (0, 0)).2, numCols := s.numCols - 1,
                mapping := mergeMap s.mapping v,
                base := mergeBase s.base (s.mapping.getD (1 + v) (0, 0)).2 },
        isInBase s.base (s.mapping.getD (1 + v) (0, 0)).2) := by
  cases h : isInBase s.base (s.mapping.getD (1 + v) (0, 0)).2 <;>
  · unfold mergeSplitVariable mergeBase mergeMap eraseCol
    simp only [h]; rfl

/-- the body of the loop :734–:745 -/
def mstep (rm : List Bool) (i : Nat) (acc : LPState × List Nat) : LPState × List Nat :=
  if rm.getD i false then
    let (s', r) := mergeSplitVariable acc.1 i
    (s', match r with | some r => acc.2 ++ [r] | none => acc.2)
  else acc

theorem ppcMerge_eq (s : LPState) (rm : List Bool) :
    ppcMerge s rm = revFold s.internal_space_dim (mstep rm) (s, []) := rfl

theorem mstep_false (rm : List Bool) (i : Nat) (acc : LPState × List Nat) (h : rm.getD i false = false) :
    mstep rm i acc = acc := by
  unfold mstep; rw [h]; rfl

theorem mstep_true (rm : List Bool) (i : Nat) (acc : LPState × List Nat) (h : rm.getD i false = true) :
    mstep rm i acc =
      ({ acc.1 with tableau := eraseCol acc.1.tableau (acc.1.mapping.getD (i+1) (0, 0)).2,
                    numCols := acc.1.numCols - 1,
                    mapping := mergeMap acc.1.mapping i,
                    base := mergeBase acc.1.base (acc.1.mapping.getD (i+1) (0, 0)).2 },
        mergeUnf acc.2 acc.1.base (acc.1.mapping.getD (i+1) (0, 0)).2) := by
  unfold mstep
  rw [h, if_pos rfl, mergeSplitVariable_eq, Nat.add_comm 1 i]
  unfold mergeUnf
  rfl

/-! ### the loop invariant -/

/-- the invariant of the merge loop: the variables `≥ k` flagged in `rm` are merged -/
structure MInv (cs0 : List ICon) (n : Nat) (s0 : LPState) (rm : List Bool) (k : Nat) (acc : LPState × List Nat) :
    Prop where
  isd : acc.1.internal_space_dim = s0.internal_space_dim
  fp : acc.1.first_pending = s0.first_pending
  ok : OldOK acc.1.tableau acc.1.base acc.1.numCols acc.2
  maps : MapS acc.1.mapping n acc.1.numCols
  split : ∀ v, v < n → (v < k ∨ rm.getD v false = false) →
    ((acc.1.mapping.getD (v+1) (0, 0)).2 = 0 ↔ (s0.mapping.getD (v+1) (0, 0)).2 = 0)
  unsplit : ∀ v, v < n → k ≤ v → rm.getD v false = true → (acc.1.mapping.getD (v+1) (0, 0)).2 = 0
  sound : ∀ y, Pos0 acc.1.numCols y → Sol acc.1.tableau y → csSem cs0 (proj acc.1.mapping y)
  complete : ∀ x, csSem cs0 x → (∀ v, v < n → k ≤ v → rm.getD v false = true → 0 ≤ x v) →
    ∃ y, Pos0 acc.1.numCols y ∧ Sol acc.1.tableau y ∧ (∀ i, i < n → proj acc.1.mapping y i = x i) ∧
      NegZero acc.1.mapping n x y
  bs : acc.2 = [] → ∀ i, i < n →
    proj acc.1.mapping (bsol acc.1.tableau acc.1.base) i = proj s0.mapping (bsol s0.tableau s0.base) i

theorem minv_init (cs0 : List ICon) (n : Nat) (s : LPState) (rm : List Bool) (k : Nat) (hk : n ≤ k)
    (h : ReadyS cs0 n s) : MInv cs0 n s rm k (s, []) := by
  have hnc := h.ncols
  have tb := h.ready.tb
  obtain ⟨nn, j, hM, hj⟩ := h.ready.map
  refine ⟨rfl, rfl, ?_, ?_, fun _ _ _ => Iff.rfl, fun v hv hkv _ => by omega, ?_, ?_, fun _ _ _ => rfl⟩
  · simp only
    rw [hnc]
    exact ⟨tb.lenB, tb.len2, tb.rowLen, tb.lastZero, fun r hr => by simp at hr, List.nodup_nil,
      fun i hi => ⟨fun h0 => by have := (tb.baseRange i hi).1; omega, fun hin => by simp at hin⟩,
      fun i hi _ => tb.baseRange i hi, fun i hi _ => tb.basicNZ i hi,
      fun i j hi hj hij _ => tb.basicCol i j hi hj hij, fun i hi _ => tb.feas i hi⟩
  · simp only
    rw [hnc]; exact MapS.ofMapOK hM hj
  · simp only
    rw [hnc]; exact h.ready.sound
  · simp only
    rw [hnc]; intro x hx _; exact h.completeS x hx

theorem minv_step (cs0 : List ICon) (n : Nat) (s0 : LPState) (rm : List Bool)
    (hrm : ∀ v, v < n → rm.getD v false = true → (s0.mapping.getD (v+1) (0, 0)).2 ≠ 0)
    (i : Nat) (hi : i < n) (acc : LPState × List Nat) (h : MInv cs0 n s0 rm (i+1) acc) :
    MInv cs0 n s0 rm i (mstep rm i acc) := by
  cases hf : rm.getD i false with
  | false =>
    rw [mstep_false rm i acc hf]
    refine ⟨h.isd, h.fp, h.ok, h.maps, fun v hv hc => h.split v hv (hc.elim (fun a => Or.inl (by omega)) Or.inr), fun v hv hkv hr => ?_,
      h.sound,
      fun x hx hpos => ?_, h.bs⟩
    · have : v ≠ i := by intro e; rw [e, hf] at hr; cases hr
      exact h.unsplit v hv (by omega) hr
    · exact h.complete x hx (fun v hv hkv hr => hpos v hv (by omega) hr)
  | true =>
    rw [mstep_true rm i acc hf]
    obtain ⟨s, unf⟩ := acc
    simp only at h ⊢
    have hq : (s.mapping.getD (i+1) (0, 0)).2 ≠ 0 := by
      intro h0
      exact hrm i hi hf ((h.split i hi (Or.inl (by omega))).mp h0)
    have hM := h.maps
    have hok := h.ok
    simp only at hM hok
    obtain ⟨o1, o2, o3, -⟩ := hM.others i hi hq
    obtain ⟨m1, m2, m3⟩ := mapS_step hM i hi hq
    have hq1 : 1 ≤ (s.mapping.getD (i+1) (0, 0)).2 := by omega
    refine ⟨h.isd, h.fp, ?_, m1, fun v hv hc => ?_, fun v hv hkv hr => ?_, fun y hy hs => ?_,
      fun x hx hpos => ?_, fun hu j hj => ?_⟩
    · exact oldOK_step hok _ (by omega) o3
    · have hvi : v ≠ i := by
        intro e; rcases hc with hc | hc
        · omega
        · rw [e, hf] at hc; cases hc
      simp only
      rw [m3 v hv hvi]
      exact h.split v hv (by rcases hc with hc | hc; exact Or.inl (by omega); exact Or.inr hc)
    · simp only
      by_cases hvi : v = i
      · rw [hvi]; exact m2
      · rw [m3 v hv hvi]; exact h.unsplit v hv (by omega) hr
    · simp only at hy hs ⊢
      rw [proj_mergeMap hM i hi hq]
      exact h.sound _ (pos0_insertZero _ _ _ hq1 o3 hy) ((sol_erase_iff _ _ _).mp hs)
    · simp only
      obtain ⟨y, y1, y2, y3, y4⟩ := h.complete x hx (fun v hv hkv hr => hpos v hv (by omega) hr)
      simp only at y1 y2 y3 y4
      have hyq : y (s.mapping.getD (i+1) (0, 0)).2 = 0 := y4 i hi hq (hpos i hi (le_refl _) hf)
      refine ⟨deleteAt (s.mapping.getD (i+1) (0, 0)).2 y, pos0_deleteAt _ _ _ hq1 o3 y1, ?_, ?_,
        negZero_step hM i hi hq x y y4⟩
      · rw [sol_erase_iff, insertZero_deleteAt _ _ hyq]; exact y2
      · intro u hu
        rw [proj_mergeMap hM i hi hq, insertZero_deleteAt _ _ hyq]; exact y3 u hu
    · simp only at hu ⊢
      obtain ⟨-, -, -, -, b5⟩ := mergeBase_spec (s.mapping.getD (i+1) (0, 0)).2 hok hq1
      obtain ⟨u1, u2, u3⟩ := b5 hu
      rw [proj_mergeMap hM i hi hq, u2, ← bsol_step s.tableau s.base _ hq1 (by rw [hok.lenB]; exact u3)]
      exact h.bs u1 j hj

/-- **package A** -/
theorem mergeSpec : MergeSpec := by
  intro cs0 n s rm hR hisd hlen hrm
  rw [ppcMerge_eq, hisd]
  have key := revFold_inv (fun k acc => MInv cs0 n s rm k acc) (mstep rm) n (s, [])
    (minv_init cs0 n s rm n (le_refl _) hR) (fun i hi acc hacc => minv_step cs0 n s rm hrm i hi acc hacc)
  generalize revFold n (mstep rm) (s, []) = out at key
  refine ⟨key.ok, ⟨key.maps.toMapOK key.ok.nc2, fun v hv hr => key.unsplit v hv (Nat.zero_le _) hr, key.sound,
    fun x hx hpos => key.complete x hx (fun v hv _ hr => hpos v hv hr)⟩,
    fun v hv hr => key.split v hv (Or.inr hr), key.bs, key.isd.trans hisd, key.fp⟩

/-! ### a non-trivial instance: `x₀ + 1 ≥ 0`, `x₀ = y₁ − y₂`, slack `y₃`, the negative part `y₂` basic -/

namespace MergeExample

def cs0 : List ICon := [⟨[1], 1, false⟩]

def st : LPState :=
  { external_space_dim := 1, internal_space_dim := 1, tableau := [[1, 1, -1, -1, 0]], numCols := 5,
    working_cost := [0, 0, 0, 0, 1], mapping := [(0, 0), (1, 2)], base := [2], input_cs := cs0, first_pending := 1 }

def wit (x : Val) : Val := fun j =>
  if j = 0 then 1 else if j = 1 then max (x 0) 0 else if j = 2 then max (-(x 0)) 0 else if j = 3 then x 0 + 1 else 0

theorem wit_spec (x : Val) (hx : csSem cs0 x) :
    Pos0 5 (wit x) ∧ Sol st.tableau (wit x) ∧ (∀ i, i < 1 → proj st.mapping (wit x) i = x i) ∧
      NegZero st.mapping 1 x (wit x) := by
  have h0 : 0 ≤ x 0 + 1 := by
    have := hx ⟨[1], 1, false⟩ (by simp [cs0])
    simpa [ICon.holds, dot] using this
  have hmax : max (x 0) 0 - max (-(x 0)) 0 = x 0 := by
    rcases le_total 0 (x 0) with h | h
    · rw [max_eq_left h, max_eq_right (by linarith)]; ring
    · rw [max_eq_right h, max_eq_left (by linarith)]; ring
  refine ⟨⟨rfl, fun j hj => ?_, fun j hj => ?_⟩, fun i hi => ?_, fun i hi => ?_, fun v hv _ hxv => ?_⟩
  · unfold wit
    split_ifs
    · norm_num
    · exact le_max_right _ _
    · exact le_max_right _ _
    · exact h0
    · exact le_refl _
  · unfold wit
    rw [if_neg (by omega), if_neg (by omega), if_neg (by omega), if_neg (by omega)]
  · have : i = 0 := by simpa [st] using hi
    subst this
    simp only [st, List.getD_cons_zero, rowVal, dot, Val.tail, wit]
    norm_num
    linarith
  · have : i = 0 := by omega
    subst this
    simp only [proj, st, wit]
    norm_num
    exact hmax
  · have : v = 0 := by omega
    subst this
    simp only [st, wit]
    norm_num
    linarith

theorem readyS : ReadyS cs0 1 st := by
  refine ⟨⟨?_, ⟨[false], 2, ⟨rfl, rfl, fun u hu => ?_, fun u u' h1 h2 => by omega⟩, by decide⟩, fun y hy hs => ?_,
    fun x hx => ?_⟩, rfl, fun x hx => ⟨wit x, wit_spec x hx⟩⟩
  · have one : ∀ i, i < st.tableau.length → i = 0 := by intro i hi; simpa [st] using hi
    refine ⟨rfl, by decide, fun i hi => ?_, fun i hi => ?_, fun i hi => ?_, fun i j hi hj hij => ?_, fun i hi => ?_,
      fun i hi => ?_⟩
    · rw [one i hi]; rfl
    · rw [one i hi]; decide
    · rw [one i hi]; decide
    · rw [one i hi, one j hj] at hij; exact absurd rfl hij
    · rw [one i hi]; rfl
    · rw [one i hi]; simp [st, Row.get]
  · have : u = 0 := by omega
    subst this
    simp [st, hiCol]
  · have h1 := hs 0 (by simp [st])
    simp only [st, List.getD_cons_zero, rowVal, dot, Val.tail] at h1
    obtain ⟨y0, ypos, -⟩ := hy
    have := ypos 3 (by omega)
    intro c hc
    simp only [cs0, List.mem_singleton] at hc
    subst hc
    simp only [ICon.holds, dot, proj, st]
    norm_num at h1 ⊢
    linarith
  · obtain ⟨w1, w2, w3, -⟩ := wit_spec x hx
    exact ⟨wit x, w1, w2, w3⟩

/-- the hypotheses of `mergeSpec` hold on the instance … -/
example : OldOK (ppcMerge st [true]).1.tableau (ppcMerge st [true]).1.base (ppcMerge st [true]).1.numCols
    (ppcMerge st [true]).2 :=
  (mergeSpec cs0 1 st [true] readyS rfl rfl (fun v hv _ => by
    have : v = 0 := by omega
    subst this; decide)).1

/-- … and the merge removes column 2, whose row 0 is reported -/
example : (ppcMerge st [true]).2 = [0] ∧ (ppcMerge st [true]).1.tableau = [[1, 1, -1, 0]] ∧
    (ppcMerge st [true]).1.base = [0] ∧ (ppcMerge st [true]).1.mapping = [(0, 0), (1, 0)] ∧
    (ppcMerge st [true]).1.numCols = 4 := by decide

end MergeExample

end PPLV.Solver.Pend
