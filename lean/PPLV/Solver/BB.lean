import PPLV.Solver.MIP

/-!
# C06 stage 3 — the branch-and-bound recursion of `src/MIP_Problem.cc` (executable model, no Mathlib)

Transliterated, line by line:
* `solveMip`            — `MIP_Problem::solve_mip` (:2055): LP relaxation of the node, pruning against the
  incumbent (`tmp_rational <= incumbent_solution_value`, an `mpq_class` comparison, i.e. a
  cross-multiplication of numerators and denominators), first non-integral integer variable in
  ascending order, `x_i <= ⌊p_i⌋` on a copy, `x_i >= ⌈p_i⌉` on the node itself, the
  `== UNBOUNDED_MIP_PROBLEM` tests on both children (repair 3b37a69) and the final
  `have_incumbent_solution ? mip_status : UNFEASIBLE_MIP_PROBLEM`;
* `solveTop`            — the MIP case of `MIP_Problem::solve` (:332);
* `chooseBranchingVariable` — `MIP_Problem::choose_branching_variable` (:2187)
  (`PPL_SIMPLEX_USE_MIP_HEURISTIC` is 1: used by `is_mip_satisfiable` only);
* `isMipSatisfiable`    — `MIP_Problem::is_mip_satisfiable` (:2264);
* `isSatisfiableTop`    — the MIP case of `MIP_Problem::is_satisfiable` (:276).

The LP machinery (`is_lp_satisfiable`, `second_phase`, `last_generator`) is an *oracle*: a function from
the data of a node to an LP result.  The recursion is fuelled (`none` = fuel exhausted or the oracle
did not answer): branching on an unbounded integer variable need not terminate in the real code
either.  A node is the root problem plus the branching rows, appended at the end of the constraint
list exactly as `add_constraint` does.
-/
namespace PPLV.Solver.BB
open PPLV.Lin PPLV.Solver

deriving instance DecidableEq for PPLV.Solver.Pt

/-- a row of `input_cs`: `coeffs·x + k ≥ 0` or `= 0` -/
structure InRow where
  coeffs : List Int
  k : Int
  eq : Bool
deriving Repr, DecidableEq, Inhabited

def InRow.toCons (r : InRow) : List Con := if r.eq then eqRows r.coeffs r.k else [geRow r.coeffs r.k]

/-- a node of the tree: `mip` (an LP: its integer variables were moved to `i_vars`) and `i_vars` -/
structure Node where
  n : Nat
  rows : List InRow
  ivars : List Nat          -- `Variables_Set`: iterated in ascending order
  obj : LinExpr
  maximize : Bool
deriving Repr, Inhabited

/-- the data of a node as a problem of the reference -/
def Node.toProblem (N : Node) : Problem :=
  { n := N.n, cs := N.rows.flatMap InRow.toCons, ints := N.ivars, obj := N.obj, maximize := N.maximize }

/-- `add_constraint(c)`: pushed at the end of `input_cs` -/
def Node.addRow (N : Node) (r : InRow) : Node := { N with rows := N.rows ++ [r] }

/-- `Variable(i) <= f` -/
def branchLe (i : Nat) (f : Int) : InRow := ⟨unitRow i (-1), f, false⟩
/-- `Variable(i) >= c` -/
def branchGe (i : Nat) (c : Int) : InRow := ⟨unitRow i 1, -c, false⟩

/-- what the LP machinery leaves behind for `solve_mip`: `is_lp_satisfiable()` false, or
    `second_phase()` ending UNBOUNDED / OPTIMIZED with `last_generator` -/
inductive LPResult
  | unfeasible
  | unbounded (p : Pt)
  | optimized (p : Pt)
deriving Repr, Inhabited, DecidableEq

abbrev Oracle := Node → Option LPResult

/-- `MIP_Problem_Status` -/
inductive Status
  | unfeasible
  | unbounded
  | optimized
deriving Repr, DecidableEq, Inhabited

/-- `have_incumbent_solution`, `incumbent_solution_value`, `incumbent_solution_point` -/
structure Inc where
  has : Bool
  val : Rat
  pt : Pt
deriving Repr, Inhabited, DecidableEq

/-- the state `solve()` starts from: no incumbent, `g = point()` -/
def Inc.init : Inc := ⟨false, 0, ⟨[], 1⟩⟩

/-- `operator<=(mpq_class, mpq_class)` = `mpq_cmp`: cross-multiplication of canonical fractions -/
def mpqLe (a b : Rat) : Bool := decide (a.num * (b.den : Int) ≤ b.num * (a.den : Int))
def mpqLt (a b : Rat) : Bool := decide (a.num * (b.den : Int) < b.num * (a.den : Int))

/-- `gcd_assign(gcd, p.coefficient(v), p_divisor); gcd != p_divisor` -/
def nonIntegral (p : Pt) (v : Nat) : Bool := ((Int.gcd (p.num.getD v 0) p.den : Nat) : Int) != p.den

/-- the loop over `i_vars` (:2104): the first variable whose coordinate is not integral -/
def firstNonInt (ivars : List Nat) (p : Pt) : Option Nat := ivars.find? (nonIntegral p)

/-- `tmp_rational` = the coordinate, canonicalized -/
def coord (p : Pt) (v : Nat) : Rat := ((p.num.getD v 0 : Int) : Rat) / (p.den : Rat)

/-- `assign_r(tmp_coeff1, tmp_rational, ROUND_DOWN)` / `ROUND_UP` -/
def floorQ (q : Rat) : Int := ratFloor q
def ceilQ (q : Rat) : Int := -(ratFloor (-q))

/-- `mip.evaluate_objective_function(p, …)` as a canonical rational -/
def objAt (N : Node) (p : Pt) : Rat := N.toProblem.objVal p.val

/-- the pruning test (:2087): the relaxation is not better than the incumbent -/
def pruned (N : Node) (inc : Inc) (v : Rat) : Bool :=
  inc.has && ((N.maximize && mpqLe v inc.val) || (!N.maximize && mpqLe inc.val v))

/-- the incumbent update (:2122) — as written: the third disjunct is *not* guarded by
    `optimization_mode() == MINIMIZATION` (unreachable in maximisation: the node would have been pruned) -/
def updateInc (N : Node) (inc : Inc) (v : Rat) (p : Pt) : Inc :=
  if !inc.has || (N.maximize && mpqLt inc.val v) || mpqLt v inc.val then ⟨true, v, p⟩ else inc

/-- `p = mip.last_generator` (:2077, :2082) -/
def LPResult.pt : LPResult → Pt
  | .unfeasible => default
  | .unbounded p => p
  | .optimized p => p

/-- `mip_status` (:2062–:2069) -/
def LPResult.mipStatus : LPResult → Status
  | .unfeasible => .unfeasible
  | .unbounded _ => .unbounded
  | .optimized _ => .optimized

/-- `MIP_Problem::solve_mip` -/
def solveMip (lp : Oracle) : Nat → Inc → Node → Option (Status × Inc)
  | 0, _, _ => none
  | fuel + 1, inc, N =>
    match lp N with
    | none => none
    | some r =>
      if r.mipStatus == .unfeasible then some (.unfeasible, inc) else            -- :2068
      let p := r.pt
      let v := objAt N p                                                          -- :2083 (used only when OPTIMIZED)
      if r.mipStatus == .optimized && pruned N inc v then some (r.mipStatus, inc) else   -- :2087–:2093
      match firstNonInt N.ivars p with
      | none =>
        if r.mipStatus == .unbounded then some (.unbounded, { inc with pt := p })   -- :2115–:2120
        else some (r.mipStatus, updateInc N inc v p)                               -- :2122–:2138
      | some i =>
        match solveMip lp fuel inc (N.addRow (branchLe i (floorQ (coord p i)))) with    -- :2150–:2162
        | none => none
        | some (st1, inc1) =>
          if st1 == .unbounded then some (.unbounded, inc1) else                  -- :2163
          match solveMip lp fuel inc1 (N.addRow (branchGe i (ceilQ (coord p i)))) with  -- :2168–:2177
          | none => none
          | some (st2, inc2) =>
            if st2 == .unbounded then some (.unbounded, inc2)                     -- :2178
            else some (if inc2.has then r.mipStatus else .unfeasible, inc2)       -- :2183

/-- what `solve()` reports for a problem with integer variables: the status, and for
    UNBOUNDED / OPTIMIZED the point stored in `last_generator`; for OPTIMIZED also the value
    (`optimal_value()` evaluates the objective at `last_generator`) -/
inductive Outcome
  | unfeasible
  | unbounded (p : Pt)
  | optimized (v : Rat) (p : Pt)
deriving Repr, Inhabited, DecidableEq

/-- the MIP case of `MIP_Problem::solve` (:332): relaxation unfeasible ⇒ UNFEASIBLE, otherwise
    `solve_mip` on a copy without incumbent -/
def solveTop (lp : Oracle) (fuel : Nat) (N : Node) : Option Outcome :=
  match lp N with
  | none => none
  | some r =>
    if r.mipStatus == .unfeasible then some .unfeasible else             -- :342
    match solveMip lp fuel Inc.init N with
    | none => none
    | some (.unfeasible, _) => some .unfeasible
    | some (.unbounded, inc) => some (.unbounded inc.pt)
    | some (.optimized, inc) => some (.optimized (objAt N inc.pt) inc.pt)

/-! ### `is_mip_satisfiable` with the branching heuristic -/

/-- `is_saturated(c, g)`: the scalar product is zero -/
def isSaturated (r : InRow) (p : Pt) : Bool :=
  decide (dot r.coeffs (fun i => ((p.num.getD i 0 : Int) : Rat)) + (r.k : Rat) * (p.den : Rat) = 0)

/-- number of active rows (equalities, saturated inequalities) in which variable `v` occurs -/
def numAppearances (rows : List InRow) (p : Pt) (v : Nat) : Nat :=
  (rows.filter fun r => (r.eq || isSaturated r p) && (r.coeffs.getD v 0 != 0)).length

/-- the last loop of `choose_branching_variable` (:2252): `n >= winning` — the last maximum wins -/
def pickWinner (rows : List InRow) (p : Pt) : List Nat → Nat → Option Nat → Option Nat
  | [], _, best => best
  | v :: vs, winning, best =>
    let n := numAppearances rows p v
    if n ≥ winning then pickWinner rows p vs n (some v) else pickWinner rows p vs winning best

/-- `choose_branching_variable`: `none` = every integer variable is integral at `last_generator`
    (the function returns true) -/
def chooseBranchingVariable (N : Node) (p : Pt) : Option Nat :=
  pickWinner N.rows p (N.ivars.filter (nonIntegral p)) 0 none

/-- `is_lp_satisfiable()` and `last_generator` -/
abbrev SatOracle := Node → Option (Option Pt)

/-- `MIP_Problem::is_mip_satisfiable`: `some (some p)` = true with the point, `some none` = false -/
def isMipSatisfiable (lp : SatOracle) : Nat → Node → Option (Option Pt)
  | 0, _ => none
  | fuel + 1, N =>
    match lp N with
    | none => none
    | some none => some none                                            -- :2283
    | some (some p) =>
      match chooseBranchingVariable N p with
      | none => some (some p)                                           -- :2314
      | some i =>
        match isMipSatisfiable lp fuel (N.addRow (branchLe i (floorQ (coord p i)))) with
        | none => none
        | some (some q) => some (some q)                                -- :2342
        | some none => isMipSatisfiable lp fuel (N.addRow (branchGe i (ceilQ (coord p i))))   -- :2353

/-- the MIP case of `MIP_Problem::is_satisfiable` (:276): the result of the first
    `relaxed.lp.is_lp_satisfiable()` is not used, `is_mip_satisfiable` asks again (the answer is cached
    in `status`) -/
def isSatisfiableTop (lp : SatOracle) (fuel : Nat) (N : Node) : Option (Option Pt) := isMipSatisfiable lp fuel N

/-! ### a reference LP oracle (verified answers, searched points) -/

/-- candidate points of `cs`: optimal vertices for a few objectives (untrusted, checked by the caller) -/
def pointCandidates (n : Nat) (cs : List Con) (e : List Int) : List Pt :=
  lpCandidates n e cs ++ lpCandidates n (negL e) cs ++
    ((List.range n).flatMap fun i => lpCandidates n (unitRow i 1) cs ++ lpCandidates n (unitRow i (-1)) cs) ++ [⟨[], 1⟩]

/-- the LP oracle built from the proved reference `lpAnswer` (`C06.lp_spec`); the point is searched
    among dual-simplex candidates and checked exactly; `none` when no point was found -/
def refOracle : Oracle := fun N =>
  let P := N.toProblem
  let R : Problem := { P with ints := [] }
  match lpAnswer P with
  | .unfeasible => some .unfeasible
  | .optimum v =>
    ((pointCandidates P.n P.cs P.maxObj.1).find? fun x =>
        decide (0 < x.den) && checkFeasible R x && decide (P.objVal x.val = v)).map LPResult.optimized
  | .unbounded =>
    ((pointCandidates P.n P.cs P.maxObj.1).find? fun x => decide (0 < x.den) && checkFeasible R x).map LPResult.unbounded
  | .unknownUnboundedIntVar => none

/-- the satisfiability oracle an LP oracle induces -/
def satOfLp (lp : Oracle) : SatOracle := fun N =>
  (lp N).map fun r => match r with
    | .unfeasible => none
    | .unbounded p => some p
    | .optimized p => some p

end PPLV.Solver.BB
