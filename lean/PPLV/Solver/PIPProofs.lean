import PPLV.Solver.PIP
import PPLV.Lin.Project

/-! # C07 — theorems about solution trees (`Tree.eval`) and the reference `lexminRef` -/
namespace PPLV.PIP
open PPLV.Lin

/-! ## Part A: the tree semantics -/

/-- The "spanning" of a solution tree as the class documentation of `PIP_Problem` words it, as a
    relation: compute the artificial parameters of the node, test its constraints, descend. -/
inductive Spans : Tree → List Int → Result → Prop
  | bottom (θ) : Spans .bottom θ .bottom
  | solArtScope {arts cons vals θ} : evalArts arts θ = none → Spans (.sol arts cons vals) θ .scopeError
  | solConScope {arts cons vals θ θ'} : evalArts arts θ = some θ' → evalCons cons θ' = none →
      Spans (.sol arts cons vals) θ .scopeError
  | solFalse {arts cons vals θ θ'} : evalArts arts θ = some θ' → evalCons cons θ' = some false →
      Spans (.sol arts cons vals) θ .bottom
  | solTrue {arts cons vals θ θ'} : evalArts arts θ = some θ' → evalCons cons θ' = some true →
      Spans (.sol arts cons vals) θ (evalVals vals θ')
  | decArtScope {arts cons t f θ} : evalArts arts θ = none → Spans (.dec arts cons t f) θ .scopeError
  | decConScope {arts cons t f θ θ'} : evalArts arts θ = some θ' → evalCons cons θ' = none →
      Spans (.dec arts cons t f) θ .scopeError
  | decTrue {arts cons t f θ θ' r} : evalArts arts θ = some θ' → evalCons cons θ' = some true →
      Spans t θ' r → Spans (.dec arts cons t f) θ r
  | decFalse {arts cons t f θ θ' r} : evalArts arts θ = some θ' → evalCons cons θ' = some false →
      Spans f θ' r → Spans (.dec arts cons t f) θ r

theorem spans_eval (t : Tree) : ∀ θ, Spans t θ (t.eval θ) := by
  induction t with
  | bottom => intro θ; exact .bottom θ
  | sol arts cons vals =>
    intro θ
    cases ha : evalArts arts θ with
    | none => simp only [Tree.eval, ha]; exact .solArtScope ha
    | some θ' =>
      cases hc : evalCons cons θ' with
      | none => simp only [Tree.eval, ha, hc]; exact .solConScope ha hc
      | some b => cases b with
        | false => simp only [Tree.eval, ha, hc]; exact .solFalse ha hc
        | true => simp only [Tree.eval, ha, hc]; exact .solTrue ha hc
  | dec arts cons t f iht ihf =>
    intro θ
    cases ha : evalArts arts θ with
    | none => simp only [Tree.eval, ha]; exact .decArtScope ha
    | some θ' =>
      cases hc : evalCons cons θ' with
      | none => simp only [Tree.eval, ha, hc]; exact .decConScope ha hc
      | some b => cases b with
        | false => simp only [Tree.eval, ha, hc]; exact .decFalse ha hc (ihf θ')
        | true => simp only [Tree.eval, ha, hc]; exact .decTrue ha hc (iht θ')

theorem spans_unique {t : Tree} {θ : List Int} {r : Result} (h : Spans t θ r) : t.eval θ = r := by
  induction h with
  | bottom θ => rfl
  | solArtScope ha => simp [Tree.eval, ha]
  | solConScope ha hc => simp [Tree.eval, ha, hc]
  | solFalse ha hc => simp [Tree.eval, ha, hc]
  | solTrue ha hc => simp [Tree.eval, ha, hc]
  | decArtScope ha => simp [Tree.eval, ha]
  | decConScope ha hc => simp [Tree.eval, ha, hc]
  | decTrue ha hc _ ih => simp [Tree.eval, ha, hc, ih]
  | decFalse ha hc _ ih => simp [Tree.eval, ha, hc, ih]

/-! ### scoping -/

theorem Aff.eval_of_scoped (a : Aff) (env : List Int) (h : a.scoped env.length = true) :
    a.eval env = some (dotI a.cs env + a.k) := by
  simp [Aff.eval, h]

theorem Aff.eval_isSome_iff (a : Aff) (env : List Int) :
    (a.eval env).isSome = a.scoped env.length := by
  unfold Aff.eval; split <;> simp_all

theorem evalArts_scoped (arts : List QAff) : ∀ (env : List Int), artsScoped arts env.length = true →
    ∃ env', evalArts arts env = some env' ∧ env'.length = env.length + arts.length := by
  induction arts with
  | nil => intro env _; exact ⟨env, rfl, by simp⟩
  | cons a as ih =>
    intro env h
    simp only [artsScoped, Bool.and_eq_true] at h
    obtain ⟨h1, h2⟩ := h
    have hlen : (env ++ [Int.fdiv (dotI a.num.cs env + a.num.k) a.den]).length = env.length + 1 := by simp
    obtain ⟨env', he, hl⟩ := ih (env ++ [Int.fdiv (dotI a.num.cs env + a.num.k) a.den]) (by rw [hlen]; exact h2)
    refine ⟨env', ?_, ?_⟩
    · simp [evalArts, Aff.eval_of_scoped a.num env h1, he]
    · rw [hl, hlen]; simp; omega

theorem evalCons_scoped (cons : List PCon) (env : List Int)
    (h : cons.all (fun c => c.e.scoped env.length) = true) : ∃ b, evalCons cons env = some b := by
  induction cons with
  | nil => exact ⟨true, rfl⟩
  | cons c cs ih =>
    simp only [List.all_cons, Bool.and_eq_true] at h
    obtain ⟨b, hb⟩ := ih h.2
    exact ⟨c.rel.holds (dotI c.e.cs env + c.e.k) && b, by simp [evalCons, Aff.eval_of_scoped c.e env h.1, hb]⟩

theorem evalVals_scoped (vals : List QAff) (env : List Int)
    (h : vals.all (fun q => q.num.scoped env.length) = true) : evalVals vals env ≠ .scopeError := by
  induction vals with
  | nil => simp [evalVals]
  | cons q qs ih =>
    simp only [List.all_cons, Bool.and_eq_true] at h
    have ih' := ih h.2
    simp only [evalVals, Aff.eval_of_scoped q.num env h.1]
    cases hq : evalVals qs env <;> split <;> simp_all

theorem eval_no_scope_error (t : Tree) : ∀ (θ : List Int), t.wellScoped θ.length = true →
    t.eval θ ≠ .scopeError := by
  induction t with
  | bottom => intro θ _; simp [Tree.eval]
  | sol arts cons vals =>
    intro θ h
    simp only [Tree.wellScoped, Bool.and_eq_true] at h
    obtain ⟨⟨h1, h2⟩, h3⟩ := h
    obtain ⟨θ', he, hl⟩ := evalArts_scoped arts θ h1
    obtain ⟨b, hb⟩ := evalCons_scoped cons θ' (by rw [hl]; exact h2)
    simp only [Tree.eval, he, hb]
    cases b with
    | false => simp
    | true => exact evalVals_scoped vals θ' (by rw [hl]; exact h3)
  | dec arts cons t f iht ihf =>
    intro θ h
    simp only [Tree.wellScoped, Bool.and_eq_true] at h
    obtain ⟨⟨⟨h1, h2⟩, h3⟩, h4⟩ := h
    obtain ⟨θ', he, hl⟩ := evalArts_scoped arts θ h1
    obtain ⟨b, hb⟩ := evalCons_scoped cons θ' (by rw [hl]; exact h2)
    simp only [Tree.eval, he, hb]
    cases b with
    | false => exact ihf θ' (by rw [hl]; exact h4)
    | true => exact iht θ' (by rw [hl]; exact h3)

/-! ## Part B: the reference lexicographic minimum -/

/-- `x` is a non-negative integer solution of `rows` over `n` variables -/
def FeasR (rows : List Row) (n : Nat) (x : List Int) : Prop :=
  x.length = n ∧ (∀ v ∈ x, 0 ≤ v) ∧ ∀ r ∈ rows, r.holds x = true

theorem dotI_nil_right (cs : List Int) : dotI cs [] = 0 := by cases cs <;> rfl

theorem subst_holds (r : Row) (v : Int) (xs : List Int) :
    (r.subst v).holds xs = r.holds (v :: xs) := by
  unfold Row.holds Row.subst
  cases hc : r.cs with
  | nil => simp [dotI]
  | cons a as =>
    simp only [List.tail_cons, List.headD_cons, dotI]
    congr 1; ring

theorem feasR_cons (rows : List Row) (n : Nat) (v : Int) (xs : List Int) :
    FeasR rows (n + 1) (v :: xs) ↔ 0 ≤ v ∧ FeasR (rows.map (·.subst v)) n xs := by
  unfold FeasR
  simp only [List.length_cons, Nat.add_right_cancel_iff, List.mem_cons, forall_eq_or_imp,
    List.mem_map, forall_exists_index, and_imp, forall_apply_eq_imp_iff₂, subst_holds]
  constructor
  · rintro ⟨h1, ⟨h2, h3⟩, h4⟩; exact ⟨h2, h1, h3, h4⟩
  · rintro ⟨h2, h1, h3, h4⟩; exact ⟨h1, ⟨h2, h3⟩, h4⟩

/-! ### integer points as rational valuations -/

def valOf (x : List Int) : Val := fun i => ((x.getD i 0 : Int) : Rat)

theorem valOf_nil : valOf [] = Val.zero := by funext i; simp [valOf, Val.zero]
theorem valOf_tail (v : Int) (xs : List Int) : (valOf (v :: xs)).tail = valOf xs := by
  funext i; simp [valOf, Val.tail]

theorem dot_valOf (cs : List Int) : ∀ x : List Int, dot cs (valOf x) = ((dotI cs x : Int) : Rat) := by
  induction cs with
  | nil => intro x; simp [dotI]
  | cons a as ih =>
    intro x
    cases x with
    | nil => rw [valOf_nil, dot_zero]; simp [dotI]
    | cons v xs =>
      rw [dot_cons, valOf_tail, ih]
      simp only [dotI, valOf, List.getD_cons_zero]
      push_cast; ring

theorem sat_toCons (r : Row) (x : List Int) (h : r.holds x = true) : Sat r.toCons (valOf x) := by
  obtain ⟨cs, k, rel⟩ := r
  cases rel <;> simp only [Row.holds, Rel.holds, beq_iff_eq, decide_eq_true_eq] at h <;>
    simp only [Row.toCons]
  · rw [Sat_eqRows, dot_valOf]
    have : ((dotI cs x + k : Int) : Rat) = 0 := by exact_mod_cast h
    push_cast at this; linarith
  · intro c hc'
    simp only [List.mem_cons, List.not_mem_nil, or_false] at hc'
    subst hc'
    simp only [Con.sat, geRow, Con.eval, dot_valOf, Bool.false_eq_true, if_false]
    have : (0 : Rat) ≤ ((dotI cs x + k : Int) : Rat) := by exact_mod_cast h
    push_cast at this; linarith
  · intro c hc'
    simp only [List.mem_cons, List.not_mem_nil, or_false] at hc'
    subst hc'
    simp only [Con.sat, gtRow, Con.eval, dot_valOf, if_true]
    have : (0 : Rat) < ((dotI cs x + k : Int) : Rat) := by exact_mod_cast h
    push_cast at this; linarith

theorem getD_nonneg : ∀ (x : List Int), (∀ v ∈ x, 0 ≤ v) → ∀ j : Nat, 0 ≤ x.getD j 0 := by
  intro x
  induction x with
  | nil => intro _ j; simp
  | cons v xs ih =>
    intro h j
    cases j with
    | zero => simpa using h v (by simp)
    | succ j => simpa using ih (fun u hu => h u (by simp [hu])) j

theorem sat_nonneg (n : Nat) (x : List Int) (h : ∀ v ∈ x, 0 ≤ v) : Sat (nonneg n) (valOf x) := by
  intro c hc
  simp only [nonneg, List.mem_map, List.mem_range] at hc
  obtain ⟨i, _, rfl⟩ := hc
  simp only [Con.sat, geRow, Con.eval, dot_unitRow, Bool.false_eq_true, if_false]
  have := getD_nonneg x h i
  have h2 : (0 : Rat) ≤ ((x.getD i 0 : Int) : Rat) := by exact_mod_cast this
  simp only [valOf]; push_cast; linarith

theorem sat_relaxation (rows : List Row) (n : Nat) (x : List Int) (hf : FeasR rows n x) :
    Sat (relaxation n rows) (valOf x) := by
  unfold relaxation
  rw [Sat_append, Sat_flatMap]
  exact ⟨fun r hr => sat_toCons r x (hf.2.2 r hr), sat_nonneg n x hf.2.1⟩

/-! ### the light projection -/

theorem elimLight_sound (is : List Nat) : ∀ (cs : List Con) (w : Val), Sat cs w → Sat (elimLight is cs) w := by
  induction is with
  | nil => intro cs w h; exact h
  | cons i is ih =>
    intro cs w h
    apply ih
    rw [tidy0_correct]
    apply (elimAt_correct i cs w).mp
    refine ⟨w i, ?_⟩
    have : w.update i (w i) = w := by funext j; unfold Val.update; split <;> simp_all
    rw [this]; exact h

theorem dot_onlyAt : ∀ (cs : List Int) (j : Nat) (w : Val), onlyAt j cs = true →
    dot cs w = ((cs.getD j 0 : Int) : Rat) * w j := by
  intro cs
  induction cs with
  | nil => intro j w _; simp
  | cons a as ih =>
    intro j w h
    cases j with
    | zero =>
      simp only [onlyAt] at h
      simp [dot_cons, dot_allZero as h]
    | succ j =>
      simp only [onlyAt, Bool.and_eq_true, beq_iff_eq] at h
      rw [dot_cons, ih j w.tail h.2, h.1]
      simp [Val.tail]

/-! ### bounds -/

theorem capHi_contains (b : Bound) (h v : Int) (hb : b.contains v) (hv : v ≤ h) : (b.capHi h).contains v := by
  cases b with
  | empty => exact hb
  | range lo hi =>
    cases hi with
    | none => exact ⟨hb, hv⟩
    | some hi =>
      simp only [Bound.capHi, Bound.contains] at hb ⊢
      split <;> omega

theorem capLo_contains (b : Bound) (l v : Int) (hb : b.contains v) (hv : l ≤ v) : (b.capLo l).contains v := by
  cases b with
  | empty => exact hb
  | range lo hi =>
    cases hi with
    | none =>
      simp only [Bound.capLo, Bound.contains] at hb ⊢
      split <;> omega
    | some hi =>
      simp only [Bound.capLo, Bound.contains] at hb ⊢
      split <;> omega

theorem meetRow_contains (j : Nat) (c : Con) (w : Val) (v : Int) (hw : w j = (v : Rat)) (hs : c.sat w)
    (b : Bound) (hb : b.contains v) : (b.meetRow j c).contains v := by
  unfold Bound.meetRow
  by_cases honly : onlyAt j c.coeffs = true
  swap
  · simp [honly]; exact hb
  simp only [honly, Bool.not_true, Bool.false_eq_true, if_false]
  have hev : c.eval w = ((c.at j * v + c.k : Int) : Rat) := by
    unfold Con.eval; rw [dot_onlyAt _ _ _ honly, hw]; unfold Con.at; push_cast; ring
  -- the integer reading of the row
  have hint : 0 ≤ c.at j * v + c.k ∧ (c.strict = true → 0 < c.at j * v + c.k) := by
    unfold Con.sat at hs
    rw [hev] at hs
    by_cases hst : c.strict = true
    · simp only [hst, if_true] at hs
      have : 0 < c.at j * v + c.k := by exact_mod_cast hs
      exact ⟨le_of_lt this, fun _ => this⟩
    · simp only [hst, Bool.false_eq_true, if_false] at hs
      have : 0 ≤ c.at j * v + c.k := by exact_mod_cast hs
      exact ⟨this, fun h => absurd h hst⟩
  by_cases ha0 : c.at j = 0
  · simp only [ha0, if_true]
    rw [ha0] at hint
    simp only [Int.zero_mul, Int.zero_add] at hint
    have hcond : (decide (c.k < 0) || (c.strict && c.k == 0)) = false := by
      rw [Bool.or_eq_false_iff]
      refine ⟨by simp; exact hint.1, ?_⟩
      cases hst : c.strict
      · simp
      · have := hint.2 hst
        simp; omega
    simp [hcond]; exact hb
  · simp only [ha0, if_false]
    by_cases hneg : c.at j < 0
    · simp only [hneg, if_true]
      apply capHi_contains _ _ _ hb
      apply Int.le_ediv_of_mul_le (by omega)
      have : v * -c.at j = -(c.at j * v) := by ring
      rw [this]; omega
    · simp only [hneg, if_false]
      apply capLo_contains _ _ _ hb
      have hpos : 0 < c.at j := by omega
      have : -v ≤ c.k / c.at j := by
        apply Int.le_ediv_of_mul_le hpos
        have : -v * c.at j = -(c.at j * v) := by ring
        rw [this]; omega
      omega

theorem foldl_meetRow_contains (j : Nat) (w : Val) (v : Int) (hw : w j = (v : Rat)) (rows : List Con) :
    ∀ (b : Bound), Sat rows w → b.contains v → (rows.foldl (Bound.meetRow j) b).contains v := by
  induction rows with
  | nil => intro b _ hb; exact hb
  | cons c cs ih =>
    intro b hs hb
    rw [Sat_cons] at hs
    exact ih _ hs.2 (meetRow_contains j c w v hw hs.1 b hb)

theorem boundAt_spec (n j : Nat) (rows : List Row) (x : List Int) (hf : FeasR rows n x) :
    (boundAt n j rows).contains (x.getD j 0) := by
  unfold boundAt
  apply foldl_meetRow_contains j (valOf x) _ rfl
  · apply elimLight_sound
    rw [tidy0_correct]
    exact sat_relaxation rows n x hf
  · exact getD_nonneg x hf.2.1 j

theorem intEmpty_not_contains (b : Bound) (v : Int) (h : b.intEmpty = true) : ¬ b.contains v := by
  cases b with
  | empty => exact fun h => h
  | range lo hi =>
    cases hi with
    | none => simp [Bound.intEmpty] at h
    | some hi =>
      simp only [Bound.intEmpty, decide_eq_true_eq] at h
      simp only [Bound.contains]; omega

theorem noIntegerShadow_sound (n : Nat) (rows : List Row) (h : noIntegerShadow n rows = true)
    (x : List Int) : ¬ FeasR rows n x := by
  intro hf
  simp only [noIntegerShadow, List.any_eq_true, List.mem_range] at h
  obtain ⟨j, _, hj⟩ := h
  exact intEmpty_not_contains _ _ hj (boundAt_spec n j rows x hf)

/-! ### the scan -/

theorem scan_point (f : Int → Ans) : ∀ (fuel : Nat) (v0 : Int) (capped : Bool) (q : List Int),
    scan f fuel v0 capped = .point q →
    ∃ v p, q = v :: p ∧ v0 ≤ v ∧ f v = .point p ∧ ∀ u, v0 ≤ u → u < v → f u = .bottom := by
  intro fuel
  induction fuel with
  | zero => intro v0 capped q h; simp only [scan] at h; split at h <;> cases h
  | succ fuel ih =>
    intro v0 capped q h
    simp only [scan] at h
    cases hf : f v0 with
    | point p =>
      rw [hf] at h
      simp only [Ans.point.injEq] at h
      exact ⟨v0, p, h.symm, le_refl _, hf, fun u h1 h2 => by omega⟩
    | unknown => rw [hf] at h; cases h
    | bottom =>
      rw [hf] at h
      obtain ⟨v, p, hq, hv, hfv, hall⟩ := ih (v0 + 1) capped q h
      refine ⟨v, p, hq, by omega, hfv, fun u h1 h2 => ?_⟩
      by_cases hu : u = v0
      · rw [hu]; exact hf
      · exact hall u (by omega) h2

theorem scan_bottom (f : Int → Ans) : ∀ (fuel : Nat) (v0 : Int) (capped : Bool),
    scan f fuel v0 capped = .bottom →
    capped = false ∧ ∀ u, v0 ≤ u → u < v0 + fuel → f u = .bottom := by
  intro fuel
  induction fuel with
  | zero =>
    intro v0 capped h
    simp only [scan] at h
    cases capped
    · exact ⟨rfl, fun u h1 h2 => by simp at h2; omega⟩
    · simp at h
  | succ fuel ih =>
    intro v0 capped h
    simp only [scan] at h
    cases hf : f v0 with
    | point p => rw [hf] at h; cases h
    | unknown => rw [hf] at h; cases h
    | bottom =>
      rw [hf] at h
      obtain ⟨hc, hall⟩ := ih (v0 + 1) capped h
      refine ⟨hc, fun u h1 h2 => ?_⟩
      by_cases hu : u = v0
      · rw [hu]; exact hf
      · exact hall u (by omega) (by push_cast at h2; omega)

/-! ### the search -/

theorem feasR_zero (rows : List Row) (y : List Int) :
    FeasR rows 0 y ↔ y = [] ∧ rows.all (fun r => r.holds []) = true := by
  unfold FeasR
  constructor
  · rintro ⟨h1, _, h3⟩
    have : y = [] := List.length_eq_zero_iff.mp h1
    subst this
    exact ⟨rfl, by simpa [List.all_eq_true] using h3⟩
  · rintro ⟨rfl, h⟩
    exact ⟨rfl, by simp, by simpa [List.all_eq_true] using h⟩

/-- what an answer of `search` means -/
def AnsOK (rows : List Row) (n : Nat) : Ans → Prop
  | .point p => FeasR rows n p ∧ ∀ y, FeasR rows n y → lexLe p y
  | .bottom => ∀ y, ¬ FeasR rows n y
  | .unknown => True

theorem scan_ok (rows : List Row) (n : Nat) (f : Int → Ans)
    (hf : ∀ v, AnsOK (rows.map (·.subst v)) n (f v))
    (fuel : Nat) (lo : Int) (capped : Bool) (hlo : 0 ≤ lo)
    (hlow : ∀ v xs, FeasR rows (n + 1) (v :: xs) → lo ≤ v)
    (hhigh : capped = false → ∀ v xs, FeasR rows (n + 1) (v :: xs) → v < lo + fuel) :
    AnsOK rows (n + 1) (scan f fuel lo capped) := by
  cases hs : scan f fuel lo capped with
  | unknown => trivial
  | point q =>
    obtain ⟨v, p, rfl, hv, hfv, hall⟩ := scan_point f fuel lo capped q hs
    have hp := hf v
    rw [hfv] at hp
    refine ⟨(feasR_cons rows n v p).mpr ⟨by omega, hp.1⟩, ?_⟩
    intro y hy
    have hlen : y.length = n + 1 := hy.1
    cases y with
    | nil => simp at hlen
    | cons v' ys =>
      have hge := hlow v' ys hy
      have hy' := (feasR_cons rows n v' ys).mp hy
      by_cases hlt : v' < v
      · have := hf v'
        rw [hall v' hge hlt] at this
        exact absurd hy'.2 (this ys)
      · by_cases heq : v = v'
        · subst heq
          exact Or.inr ⟨rfl, hp.2 ys hy'.2⟩
        · exact Or.inl (by omega)
  | bottom =>
    obtain ⟨hc, hall⟩ := scan_bottom f fuel lo capped hs
    intro y hy
    have hlen : y.length = n + 1 := hy.1
    cases y with
    | nil => simp at hlen
    | cons v' ys =>
      have hge := hlow v' ys hy
      have hlt := hhigh hc v' ys hy
      have hy' := (feasR_cons rows n v' ys).mp hy
      have := hf v'
      rw [hall v' hge hlt] at this
      exact this ys hy'.2

theorem search_ok (W : Nat) : ∀ (n : Nat) (rows : List Row), AnsOK rows n (search W n rows) := by
  intro n
  induction n with
  | zero =>
    intro rows
    simp only [search]
    split
    · rename_i h
      exact ⟨(feasR_zero rows []).mpr ⟨rfl, h⟩, fun y _ => by cases y <;> trivial⟩
    · rename_i h
      intro y hy
      exact h ((feasR_zero rows y).mp hy).2
  | succ n ih =>
    intro rows
    have hb : ∀ v xs, FeasR rows (n + 1) (v :: xs) → (bound (n + 1) rows).contains v := by
      intro v xs h
      have := boundAt_spec (n + 1) 0 rows (v :: xs) h
      simpa [bound] using this
    have hf : ∀ v, AnsOK (rows.map (·.subst v)) n (search W n (rows.map (·.subst v))) := fun v => ih _
    simp only [search]
    cases hbd : bound (n + 1) rows with
    | empty =>
      intro y hy
      have hlen : y.length = n + 1 := hy.1
      cases y with
      | nil => simp at hlen
      | cons v xs => have := hb v xs hy; rw [hbd] at this; exact this
    | range lo hi =>
      -- every feasible first coordinate is at least the clipped lower bound
      have hlow : ∀ v xs, FeasR rows (n + 1) (v :: xs) → (if lo < 0 then 0 else lo) ≤ v := by
        intro v xs h
        have h0 : 0 ≤ v := ((feasR_cons rows n v xs).mp h).1
        have := hb v xs h
        rw [hbd] at this
        cases hi <;> simp only [Bound.contains] at this <;> split <;> omega
      have hlo0 : 0 ≤ (if lo < 0 then 0 else lo) := by split <;> omega
      have hbnd : ∀ v xs, FeasR rows (n + 1) (v :: xs) → (Bound.range lo hi).contains v := by
        intro v xs h; rw [← hbd]; exact hb v xs h
      dsimp only
      generalize (if lo < 0 then (0 : Int) else lo) = lo' at hlow hlo0 ⊢
      cases hi with
      | none =>
        exact scan_ok rows n _ hf (W + 1) _ true hlo0 hlow (fun h => by cases h)
      | some b =>
        simp only
        have hup : ∀ v xs, FeasR rows (n + 1) (v :: xs) → v ≤ b := by
          intro v xs h
          exact (hbnd v xs h).2
        split
        · rename_i hlt
          intro y hy
          have hlen : y.length = n + 1 := hy.1
          cases y with
          | nil => simp at hlen
          | cons v xs =>
            have h1 := hlow v xs hy
            have h2 := hup v xs hy
            omega
        · split
          · rename_i hge hw
            refine scan_ok rows n _ hf _ _ false hlo0 hlow (fun _ v xs h => ?_)
            have h2 := hup v xs h
            have : ((b - lo').toNat : Int) = b - lo' := Int.toNat_of_nonneg (by omega)
            push_cast
            omega
          · exact scan_ok rows n _ hf (W + 1) _ true hlo0 hlow (fun h => by cases h)

/-! ### the reference at the level of problems -/

theorem inst_holds (r : PRow) (θ x : List Int) : (r.inst θ).holds x = r.holds x θ := by
  simp only [PRow.inst, Row.holds, PRow.holds]
  congr 1; omega

theorem feasible_iff_feasR (P : Problem) (θ x : List Int) :
    P.feasible θ x ↔ FeasR (P.rows.map (·.inst θ)) P.nv x := by
  unfold Problem.feasible FeasR
  simp only [List.mem_map, forall_exists_index, and_imp, forall_apply_eq_imp_iff₂, inst_holds]

theorem feasibleB_iff (P : Problem) (θ x : List Int) : P.feasibleB θ x = true ↔ P.feasible θ x := by
  unfold Problem.feasibleB Problem.feasible
  simp only [Bool.and_eq_true, decide_eq_true_eq, List.all_eq_true, and_assoc]

theorem lexminRef_ok (W : Nat) (P : Problem) (θ : List Int) :
    AnsOK (P.rows.map (·.inst θ)) P.nv (lexminRef W P θ) := by
  unfold lexminRef
  simp only
  split
  · rename_i h
    exact fun y => noIntegerShadow_sound _ _ h y
  · exact search_ok W _ _

/-! ## Part C: the Gomory cut of `generate_cut` -/

theorem dotI_map_neg (t p : List Int) (g : Int → Int) :
    dotI (t.map fun a => -(g a)) p = - dotI (t.map g) p := by
  induction t generalizing p with
  | nil => simp [dotI]
  | cons a as ih =>
    cases p with
    | nil => simp [dotI]
    | cons v vs => simp only [List.map_cons, dotI, ih]; ring

/-- replacing every coefficient by something congruent modulo `d` changes the sum by a multiple of `d` -/
theorem dvd_dotI_map_sub (d : Int) (g : Int → Int) (hg : ∀ a, d ∣ g a - a) (s y : List Int) :
    d ∣ dotI (s.map g) y - dotI s y := by
  induction s generalizing y with
  | nil => simp [dotI]
  | cons a as ih =>
    cases y with
    | nil => simp [dotI]
    | cons v vs =>
      simp only [List.map_cons, dotI]
      have h1 : d ∣ (g a - a) * v := Dvd.dvd.mul_right (hg a) v
      have h2 := ih vs
      have : g a * v + dotI (as.map g) vs - (a * v + dotI as vs)
          = (g a - a) * v + (dotI (as.map g) vs - dotI as vs) := by ring
      rw [this]; exact dvd_add h1 h2

theorem dvd_dotI_map_add (d : Int) (g : Int → Int) (hg : ∀ a, d ∣ g a + a) (s y : List Int) :
    d ∣ dotI (s.map g) y + dotI s y := by
  induction s generalizing y with
  | nil => simp [dotI]
  | cons a as ih =>
    cases y with
    | nil => simp [dotI]
    | cons v vs =>
      simp only [List.map_cons, dotI]
      have h1 : d ∣ (g a + a) * v := Dvd.dvd.mul_right (hg a) v
      have h2 := ih vs
      have : g a * v + dotI (as.map g) vs + (a * v + dotI as vs)
          = (g a + a) * v + (dotI (as.map g) vs + dotI as vs) := by ring
      rw [this]; exact dvd_add h1 h2

theorem posRem_sub_dvd (d a : Int) : d ∣ posRem a d - a := by
  change d ∣ a % d - a
  rw [Int.emod_def]
  exact ⟨-(a / d), by ring⟩

theorem posRem_neg_add_dvd (d a : Int) : d ∣ posRem (-a) d + a := by
  have := posRem_sub_dvd d (-a)
  simpa using this

theorem dotI_posRem_nonneg (d : Int) (hd : 0 < d) (s y : List Int) (hy : ∀ v ∈ y, 0 ≤ v) :
    0 ≤ dotI (s.map fun a => posRem a d) y := by
  induction s generalizing y with
  | nil => simp [dotI]
  | cons a as ih =>
    cases y with
    | nil => simp [dotI]
    | cons v vs =>
      simp only [List.map_cons, dotI]
      have h1 : 0 ≤ posRem a d := Int.emod_nonneg a (by omega)
      have h2 : 0 ≤ v := hy v (by simp)
      have h3 := ih vs (fun u hu => hy u (by simp [hu]))
      have := Int.mul_nonneg h1 h2
      omega

theorem emod_le_self_of_nonneg (f d : Int) (hf : 0 ≤ f) (hd : 0 < d) : f % d ≤ f := by
  have h1 := Int.mul_ediv_add_emod f d
  have h2 : 0 ≤ f / d := Int.ediv_nonneg hf (by omega)
  have h3 := Int.mul_nonneg (by omega : 0 ≤ d) h2
  omega

/-- **Validity of the cut.**  If the tableau row `d·x = s·y + t·p + t₀` has an integer solution
    (`x` integer, non-basic variables `y ≥ 0` integer, parameters `p` integer), the cut row
    generated by `generate_cut` holds at `(y, p, q')` for `q' = ⌊(Σ((-tₖ) mod d) pₖ + ((-t₀) mod d)) / d⌋`,
    the value of the new artificial parameter. -/
theorem cut_valid (r : CutRow) (hd : 0 < r.d) (y p : List Int) (x : Int) (hy : ∀ v ∈ y, 0 ≤ v)
    (hrow : r.d * x = dotI r.s y + dotI r.t p + r.t0) :
    r.cut.holds y p (Int.fdiv (dotI r.artNum.cs p + r.artNum.k) r.d) := by
  unfold Cut.holds CutRow.cut CutRow.artNum
  simp only
  rw [dotI_map_neg r.t p (fun a => posRem (-a) r.d)]
  rw [Int.fdiv_eq_ediv_of_nonneg _ (le_of_lt hd)]
  -- f = Σ (sⱼ mod d) yⱼ ≥ 0,  e = numerator of the artificial parameter
  generalize hf : dotI (r.s.map fun a => posRem a r.d) y = f
  generalize he : dotI (r.t.map fun a => posRem (-a) r.d) p = e0
  have hf0 : 0 ≤ f := by rw [← hf]; exact dotI_posRem_nonneg r.d hd r.s y hy
  have h1 : r.d ∣ f - dotI r.s y := by
    rw [← hf]; exact dvd_dotI_map_sub r.d _ (posRem_sub_dvd r.d) r.s y
  have h2 : r.d ∣ e0 + dotI r.t p := by
    rw [← he]; exact dvd_dotI_map_add r.d _ (posRem_neg_add_dvd r.d) r.t p
  have h3 : r.d ∣ posRem (-r.t0) r.d + r.t0 := posRem_neg_add_dvd r.d r.t0
  generalize posRem (-r.t0) r.d = k0 at h3 ⊢
  -- f ≡ e (mod d), where e = e0 + k0
  have hcong : r.d ∣ f - (e0 + k0) := by
    have hx : r.d ∣ dotI r.s y + dotI r.t p + r.t0 := ⟨x, hrow.symm⟩
    have : f - (e0 + k0) = (f - dotI r.s y) + (dotI r.s y + dotI r.t p + r.t0) - (e0 + dotI r.t p) - (k0 + r.t0) := by
      ring
    rw [this]
    exact dvd_sub (dvd_sub (dvd_add h1 hx) h2) h3
  have hmod : f % r.d = (e0 + k0) % r.d :=
    Int.emod_eq_emod_iff_emod_sub_eq_zero.mpr (Int.emod_eq_zero_of_dvd hcong)
  have hle := emod_le_self_of_nonneg f r.d hf0 hd
  have hdef := Int.mul_ediv_add_emod (e0 + k0) r.d
  -- the cut expression is f - ((e0 + k0) mod d)
  have : f + -e0 + r.d * ((e0 + k0) / r.d) + -k0 = f - (e0 + k0) % r.d := by omega
  rw [this]; omega

/-- **The two context rows define the floor.**  With `e` the numerator of the new artificial
    parameter, the rows `e - d·q ≥ 0` and `d·q + d - 1 - e ≥ 0` that `generate_cut` adds to the
    context hold exactly when `q = ⌊e / d⌋`. -/
theorem context_rows_iff_floor (e d q : Int) (hd : 0 < d) :
    (0 ≤ e - d * q ∧ 0 ≤ d * q + d - 1 - e) ↔ q = Int.fdiv e d := by
  rw [Int.fdiv_eq_ediv_of_nonneg _ (le_of_lt hd)]
  constructor
  · rintro ⟨h1, h2⟩
    have := (Int.ediv_emod_unique hd (a := e) (q := q) (r := e - d * q)).mpr ⟨by omega, h1, by omega⟩
    exact this.1.symm
  · rintro rfl
    have h1 := Int.mul_ediv_add_emod e d
    have h2 := Int.emod_nonneg e (by omega : d ≠ 0)
    have h3 := Int.emod_lt_of_pos e hd
    constructor <;> omega

end PPLV.PIP
