import PPLV.Solver.PIPCoreProofsMain3
import PPLV.Solver.PIPCoreProofsCut5
import PPLV.Solver.PIPCoreProofsTree
/-!
# C07 stage 2 — end-to-end, part 4: the cut step keeps the invariant
-/
namespace PPLV.PIPCore

theorem inv_cut (ctl : Ctl) {S : List Int → Prop} {n0 : Nat} {nd : SolNode} {ctx : Mat}
    (h : Inv' S n0 nd ctx) {qpre0 : List Int} (hq0 : S qpre0) :
    Inv' S n0 (generateCuts ctl nd ctx).1 (generateCuts ctl nd ctx).2 ∧
      ∀ qpre, S qpre → ∀ x, IsLexMin (generateCuts ctl nd ctx).1
          (extendArts (generateCuts ctl nd ctx).1.arts qpre) x →
        IsLexMin nd (extendArts nd.arts qpre) x := by
  obtain ⟨hwf', hlex'⟩ := generateCuts_inv ctl nd ctx h.wf h.lex
  have B := fun qpre (hq : S qpre) =>
    generateCuts_step (n0 := n0) (qpre := qpre) ctl (nd := nd) (ctx := ctx)
      ⟨h.wf, h.nt_eq, h.arts, h.pv qpre hq, h.pvq qpre hq, h.ctx_len⟩
  obtain ⟨s0, c0⟩ := B qpre0 hq0
  have hntle : nd.tab.nt ≤ (generateCuts ctl nd ctx).1.tab.nt := by
    obtain ⟨new, _, h2, _⟩ := c0.arts_ext
    omega
  -- the node's own constraints are evaluated on a prefix
  have hcons : ∀ qpre, S qpre →
      consHold (generateCuts ctl nd ctx).1.cons (extendArts (generateCuts ctl nd ctx).1.arts qpre)
        = consHold nd.cons (extendArts nd.arts qpre) := by
    intro qpre hq
    obtain ⟨new, _, _, h3⟩ := (B qpre hq).2.arts_ext
    obtain ⟨e, he, _⟩ := extendArts_prefix new (extendArts nd.arts qpre)
    rw [(B qpre hq).2.cons_eq, h3, he]
    exact consHold_prefix' _ _ _ (by rw [(h.pvq qpre hq).1]; exact h.cons_len)
  refine ⟨{ wf := hwf', lex := hlex', big := by rw [c0.big_eq]; exact h.big, arts := s0.arts_wf
            nt_eq := s0.nt_eq, n0_pos := h.n0_pos, ctx_len := s0.ctx_cols
            cons_len := by
              rw [c0.cons_eq]; intro r hr; exact Nat.le_trans (h.cons_len r hr) hntle
            pv := h.pv
            pvq := fun qpre hq => (B qpre hq).1.q_ok
            rel := fun qpre hq hc => (B qpre hq).2.ctx_sat (h.rel qpre hq (by rw [← hcons qpre hq]; exact hc))
            sgn := fun qpre hq hc => (B qpre hq).2.sign (h.sgn qpre hq (by rw [← hcons qpre hq]; exact hc))
            int := fun qpre hq => (B qpre hq).2.int (h.int qpre hq) }, ?_⟩
  intro qpre hq x hx
  exact (B qpre hq).2.islexmin h.wf x hx

end PPLV.PIPCore
