import PPLV.Solver.PIPCoreProofsSign2
import Mathlib.Tactic.Linarith
import Mathlib.Tactic.Ring
/-!
# C07 core — sign family, part 3: the rows `t_i(z) < 0` and `t_i(z) > 0` handed to `compatibility_check`,
and generic invariants of the two refinement loops

`complement_assign(x, t, den)` and the row of PIP_Tree.cc:2783-2787 subtract from the constant term the
number `δ ∈ [1, den]` that makes it a multiple of `den` (`roundDelta`).  They are the exact negation
`t(z) < 0` resp. the exact `t(z) > 0` only when `den` divides the parameter part `Σ_{j≥1} t_j q_j`
(`DenDivides`); in general they are STRONGER (one direction only).
-/
namespace PPLV.PIPCore

/-- the `δ` subtracted from the constant term `x0`: `x0 - δ` is the greatest multiple of `den` below `x0` -/
def roundDelta (x0 den : Int) : Int := if posRem x0 den = 0 then den else posRem x0 den

theorem roundDelta_bounds {den : Int} (hden : 0 < den) (x0 : Int) :
    1 ≤ roundDelta x0 den ∧ roundDelta x0 den ≤ den := by
  unfold roundDelta posRem
  have h0 : 0 ≤ x0.emod den := Int.emod_nonneg x0 (by omega)
  have h1 : x0.emod den < den := Int.emod_lt_of_pos x0 hden
  by_cases h : x0.emod den = 0
  · simp only [h, if_true]; omega
  · simp only [h, if_false]; omega

theorem roundDelta_dvd {den : Int} (x0 : Int) : den ∣ x0 - roundDelta x0 den := by
  unfold roundDelta posRem
  have hdef : den * (x0 / den) + x0.emod den = x0 := Int.mul_ediv_add_emod x0 den
  by_cases h : x0.emod den = 0
  · simp only [h, if_true]
    exact ⟨x0 / den - 1, by rw [Int.mul_sub]; omega⟩
  · simp only [h, if_false]
    exact ⟨x0 / den, by omega⟩

theorem roundDelta_one (x0 : Int) : roundDelta x0 1 = 1 := by
  have := roundDelta_bounds (den := 1) (by decide) x0; omega

/-- every parameter coefficient of the row is a multiple of the denominator -/
def DenDivides (den : Int) (t : Row) : Prop := ∀ j, 1 ≤ j → den ∣ rget t j

theorem DenDivides.tail {den a : Int} {as : Row} (h : DenDivides den (a :: as)) : ∀ b ∈ as, den ∣ b := by
  intro b hb
  obtain ⟨i, hi, rfl⟩ := List.getElem_of_mem hb
  have := h (i + 1) (by omega)
  simpa [rget, List.getD_eq_getElem?_getD, hi] using this

theorem complementAssign_cons {den : Int} (a : Int) (as : Row) :
    complementAssign (a :: as) den = (-a - roundDelta (-a) den) :: as.map (fun a => -a) := by
  by_cases h1 : den = 1
  · subst h1
    rw [roundDelta_one]
    simp [complementAssign, rget, rset]
  · simp [complementAssign, rget, rset, roundDelta, h1]

theorem strictRow_cons {den : Int} (a : Int) (as : Row) :
    strictRow (a :: as) den = (a - roundDelta a den) :: as := by
  simp [strictRow, rget, rset, roundDelta]

theorem complementAssign_length (t : Row) (den : Int) : (complementAssign t den).length = t.length := by
  simp [complementAssign, rset]

theorem strictRow_length (t : Row) (den : Int) : (strictRow t den).length = t.length := by
  simp [strictRow, rset]

/-- value of the complement row -/
theorem complementAssign_dot {t : Row} {den : Int} {q : List Int} (hq : q.head? = some 1) (ht : t ≠ []) :
    dot (complementAssign t den) q = - dot t q - roundDelta (-(rget t 0)) den := by
  obtain ⟨ps, rfl⟩ := head_one_form hq
  cases t with
  | nil => exact absurd rfl ht
  | cons a as =>
    rw [complementAssign_cons, dot_cons, dot_cons, dot_neg]
    show _ = _ - roundDelta (-a) den
    ring

/-- value of the row `t_i(z) > 0` -/
theorem strictRow_dot {t : Row} {den : Int} {q : List Int} (hq : q.head? = some 1) (ht : t ≠ []) :
    dot (strictRow t den) q = dot t q - roundDelta (rget t 0) den := by
  obtain ⟨ps, rfl⟩ := head_one_form hq
  cases t with
  | nil => exact absurd rfl ht
  | cons a as =>
    rw [strictRow_cons, dot_cons, dot_cons]
    show _ = _ - roundDelta a den
    ring

/-- **exact characterisation** of the complement row (any `den`) -/
theorem complementAssign_den_spec {t : Row} {den : Int} {q : List Int} (hq : q.head? = some 1) (ht : t ≠ []) :
    0 ≤ dot (complementAssign t den) q ↔ dot t q + roundDelta (-(rget t 0)) den ≤ 0 := by
  rw [complementAssign_dot hq ht]; omega

/-- **exact characterisation** of the row `t_i(z) > 0` (any `den`) -/
theorem strictRow_spec {t : Row} {den : Int} {q : List Int} (hq : q.head? = some 1) (ht : t ≠ []) :
    0 ≤ dot (strictRow t den) q ↔ roundDelta (rget t 0) den ≤ dot t q := by
  rw [strictRow_dot hq ht]; omega

/-- the complement row implies `t(z) < 0` (always) -/
theorem complementAssign_imp_neg {t : Row} {den : Int} {q : List Int} (hden : 0 < den)
    (hq : q.head? = some 1) (ht : t ≠ []) (h : 0 ≤ dot (complementAssign t den) q) : dot t q < 0 := by
  have := (complementAssign_den_spec hq ht).1 h
  have := roundDelta_bounds hden (-(rget t 0))
  omega

/-- the row `t_i(z) > 0` implies `t(z) > 0` (always) -/
theorem strictRow_imp_pos {t : Row} {den : Int} {q : List Int} (hden : 0 < den)
    (hq : q.head? = some 1) (ht : t ≠ []) (h : 0 ≤ dot (strictRow t den) q) : 0 < dot t q := by
  have := (strictRow_spec hq ht).1 h
  have := roundDelta_bounds hden (rget t 0)
  omega

theorem dvd_lt_nonpos {d w : Int} (hd : 0 < d) (hdvd : d ∣ w) (hlt : w < d) : w ≤ 0 := by
  obtain ⟨m, rfl⟩ := hdvd
  by_contra h
  have hm : 1 ≤ m := by
    by_contra hm
    have : d * m ≤ 0 := Int.mul_nonpos_of_nonneg_of_nonpos (Int.le_of_lt hd) (by omega)
    omega
  have := Int.mul_le_mul_of_nonneg_left hm (Int.le_of_lt hd)
  omega

/-- when `den` divides the parameter part, the complement row IS `t(z) < 0` -/
theorem complementAssign_den_exact {t : Row} {den : Int} {q : List Int} (hden : 0 < den)
    (hq : q.head? = some 1) (ht : t ≠ []) (hdiv : DenDivides den t) :
    0 ≤ dot (complementAssign t den) q ↔ dot t q < 0 := by
  refine ⟨complementAssign_imp_neg hden hq ht, ?_⟩
  intro hneg
  rw [complementAssign_den_spec hq ht]
  obtain ⟨ps, rfl⟩ := head_one_form hq
  cases t with
  | nil => exact absurd rfl ht
  | cons a as =>
    have hb := roundDelta_bounds hden (-a)
    have hd1 : den ∣ -a - roundDelta (-a) den := roundDelta_dvd (-a)
    have hd2 : den ∣ dot as ps := dvd_dot den as ps hdiv.tail
    show dot (a :: as) (1 :: ps) + roundDelta (-a) den ≤ 0
    rw [dot_cons] at hneg ⊢
    have hd3 : den ∣ a * 1 + dot as ps + roundDelta (-a) den := by
      have := Int.dvd_sub hd2 hd1
      have e : dot as ps - (-a - roundDelta (-a) den) = a * 1 + dot as ps + roundDelta (-a) den := by ring
      rwa [e] at this
    exact dvd_lt_nonpos hden hd3 (by omega)

/-- when `den` divides the parameter part, the row of lines 2783-2787 IS `t(z) > 0` -/
theorem strictRow_exact {t : Row} {den : Int} {q : List Int} (hden : 0 < den)
    (hq : q.head? = some 1) (ht : t ≠ []) (hdiv : DenDivides den t) :
    0 ≤ dot (strictRow t den) q ↔ 0 < dot t q := by
  refine ⟨strictRow_imp_pos hden hq ht, ?_⟩
  intro hpos
  rw [strictRow_spec hq ht]
  obtain ⟨ps, rfl⟩ := head_one_form hq
  cases t with
  | nil => exact absurd rfl ht
  | cons a as =>
    have hb := roundDelta_bounds hden a
    have hd1 : den ∣ a - roundDelta a den := roundDelta_dvd a
    have hd2 : den ∣ dot as ps := dvd_dot den as ps hdiv.tail
    show roundDelta a den ≤ dot (a :: as) (1 :: ps)
    rw [dot_cons] at hpos ⊢
    have hd3 : den ∣ roundDelta a den - (a * 1 + dot as ps) := by
      have := Int.dvd_neg.2 (Int.dvd_add hd1 hd2)
      have e : -(a - roundDelta a den + dot as ps) = roundDelta a den - (a * 1 + dot as ps) := by ring
      rwa [e] at this
    have := dvd_lt_nonpos hden hd3 (by omega)
    omega

-- non-vacuity (den = 3 divides the parameter coefficients) and the gap when it does not
example : DenDivides 3 [4, 3, -6] := by
  intro j hj
  match j, hj with
  | 1, _ => decide
  | 2, _ => decide
  | (j + 3), _ => simp [rget]
example : complementAssign [4, 3, -6] 3 = [-6, -3, 6] ∧ strictRow [4, 3, -6] 3 = [3, 3, -6] := by decide
/-- `den = 2`, `t = -p`: the complement row is `p - 2 ≥ 0`, which misses `p = 1` where `t(z) = -1 < 0` -/
example : complementAssign [0, -1] 2 = [-2, 1] ∧ dot [0, -1] [1, 1] < 0
    ∧ ¬ (0 ≤ dot (complementAssign [0, -1] 2) [1, 1]) := by decide

/-! ### the oracle -/

theorem ccRow_false {cc : Mat → Option Bool} (hcc : CCContract cc) {n : Nat} (hn : 0 < n) {ctx : Mat}
    (hctx : ∀ r ∈ ctx, r.length = n) {row : Row} (hrow : row.length = n)
    (h : ccRow cc ctx row = some false) {q : List Int} (hq : ParamVec n q) (hsat : CtxSat ctx q) :
    dot row q < 0 := by
  have hall : ∀ r ∈ ctx ++ [row], r.length = n := by
    intro r hr
    rcases List.mem_append.1 hr with h | h
    · exact hctx r h
    · simp at h; subst h; exact hrow
  have := hcc (ctx ++ [row]) n false hall hn h
  by_contra hneg
  have hex : ∃ q, ParamVec n q ∧ CtxSat (ctx ++ [row]) q :=
    ⟨q, hq, (ctxSat_append_iff ctx row q).2 ⟨hsat, by omega⟩⟩
  exact absurd (this.2 hex) (by decide)

theorem ccRow_true {cc : Mat → Option Bool} (hcc : CCContract cc) {n : Nat} (hn : 0 < n) {ctx : Mat}
    (hctx : ∀ r ∈ ctx, r.length = n) {row : Row} (hrow : row.length = n)
    (h : ccRow cc ctx row = some true) : ∃ q, ParamVec n q ∧ CtxSat ctx q ∧ 0 ≤ dot row q := by
  have hall : ∀ r ∈ ctx ++ [row], r.length = n := by
    intro r hr
    rcases List.mem_append.1 hr with h | h
    · exact hctx r h
    · simp at h; subst h; exact hrow
  obtain ⟨q, hq, hs⟩ := (hcc (ctx ++ [row]) n true hall hn h).1 rfl
  exact ⟨q, hq, ((ctxSat_append_iff ctx row q).1 hs).1, ((ctxSat_append_iff ctx row q).1 hs).2⟩

/-! ### signs in a list -/

theorem signGet_set (sg : List RowSign) (i k : Nat) (v : RowSign) :
    signGet (sg.set i v) k = if i = k ∧ i < sg.length then v else signGet sg k := by
  unfold signGet
  rw [List.getD_eq_getElem?_getD, List.getD_eq_getElem?_getD, List.getElem?_set]
  by_cases h1 : i = k
  · subst h1
    by_cases h2 : i < sg.length
    · simp [h2]
    · simp [h2]
  · simp [h1]

theorem signGet_lt_of_ne_unknown {sg : List RowSign} {i : Nat} (h : signGet sg i ≠ .unknown) :
    i < sg.length := by
  by_contra hlt
  apply h
  unfold signGet
  rw [List.getD_eq_getElem?_getD, List.getElem?_eq_none (by omega)]
  rfl

theorem pointwise_set {P : Nat → RowSign → Prop} {sg : List RowSign} {i : Nat} {v : RowSign}
    (hinv : ∀ k, P k (signGet sg k)) (hv : P i v) : ∀ k, P k (signGet (sg.set i v) k) := by
  intro k
  rw [signGet_set]
  by_cases h : i = k ∧ i < sg.length
  · rw [if_pos h]; rw [← h.1]; exact hv
  · rw [if_neg h]; exact hinv k

/-! ### generic invariants of the two refinement loops -/

/-- the sign `refineMixed1` gives to a mixed row from the two answers of the oracle -/
def newSign1 (b1 b2 : Bool) : RowSign :=
  if b2 then (if b1 then .mixed else .negative) else (if b1 then .positive else .zero)

/-- a pointwise property of the signs is kept by the first refinement when it holds of every sign the
    loop can write (the loop only rewrites rows of the list whose sign is `MIXED`) -/
theorem refineMixed1_pointwise {cc : Mat → Option Bool} {T : Tableau} {ctx : Mat} (start : Nat)
    (P : Nat → RowSign → Prop) :
    ∀ (is : List Nat) (sg : List RowSign) (fs : Firsts) (sg' : List RowSign) (fs' : Firsts),
      (∀ i ∈ is, P i .mixed → ∀ b1 b2, ccRow cc ctx (mrow T.t i) = some b1 →
        ccRow cc ctx (complementAssign (mrow T.t i) T.den) = some b2 → P i (newSign1 b1 b2)) →
      refineMixed1 cc T ctx start is (sg, fs) = some (sg', fs') →
      (∀ k, P k (signGet sg k)) → ∀ k, P k (signGet sg' k)
  | [], sg, fs, sg', fs', _, h, hinv => by
    simp only [refineMixed1, Option.some.injEq, Prod.mk.injEq] at h
    rw [← h.1]; exact hinv
  | i :: is, sg, fs, sg', fs', hstep, h, hinv => by
    have hstep' : ∀ j ∈ is, P j .mixed → ∀ b1 b2, ccRow cc ctx (mrow T.t j) = some b1 →
        ccRow cc ctx (complementAssign (mrow T.t j) T.den) = some b2 → P j (newSign1 b1 b2) :=
      fun j hj => hstep j (by simp [hj])
    simp only [refineMixed1] at h
    by_cases hm : signGet sg i ≠ .mixed
    · rw [if_pos hm] at h
      exact refineMixed1_pointwise start P is sg fs sg' fs' hstep' h hinv
    · rw [if_neg hm] at h
      have hm' : signGet sg i = .mixed := by simpa using hm
      cases hb1 : ccRow cc ctx (mrow T.t i) with
      | none => rw [hb1] at h; simp at h
      | some b1 =>
        rw [hb1] at h
        cases hb2 : ccRow cc ctx (complementAssign (mrow T.t i) T.den) with
        | none => rw [hb2] at h; simp at h
        | some b2 =>
          rw [hb2] at h
          simp only at h
          have hPi : P i (newSign1 b1 b2) := hstep i (by simp) (hm' ▸ hinv i) b1 b2 hb1 hb2
          exact refineMixed1_pointwise start P is _ _ sg' fs' hstep' h (pointwise_set hinv hPi)

/-- the same for the second refinement: it only turns `MIXED` rows with a positive variable coefficient
    whose row `t_i(z) > 0` is incompatible into `NEGATIVE` -/
theorem refineMixed2_pointwise {cc : Mat → Option Bool} {T : Tableau} {ctx : Mat}
    (P : Nat → RowSign → Prop) :
    ∀ (is : List Nat) (sg : List RowSign) (fs : Firsts) (sg' : List RowSign) (fs' : Firsts),
      (∀ i ∈ is, P i .mixed → hasPositive (mrow T.s i) = true →
        ccRow cc ctx (strictRow (mrow T.t i) T.den) = some false → P i .negative) →
      refineMixed2 cc T ctx is (sg, fs) = some (sg', fs') →
      (∀ k, P k (signGet sg k)) → ∀ k, P k (signGet sg' k)
  | [], sg, fs, sg', fs', _, h, hinv => by
    simp only [refineMixed2, Option.some.injEq, Prod.mk.injEq] at h
    rw [← h.1]; exact hinv
  | i :: is, sg, fs, sg', fs', hstep, h, hinv => by
    have hstep' : ∀ j ∈ is, P j .mixed → hasPositive (mrow T.s j) = true →
        ccRow cc ctx (strictRow (mrow T.t j) T.den) = some false → P j .negative :=
      fun j hj => hstep j (by simp [hj])
    simp only [refineMixed2] at h
    by_cases hm : signGet sg i ≠ .mixed
    · rw [if_pos hm] at h
      exact refineMixed2_pointwise P is sg fs sg' fs' hstep' h hinv
    · rw [if_neg hm] at h
      have hm' : signGet sg i = .mixed := by simpa using hm
      by_cases hp : hasPositive (mrow T.s i) = true
      · simp only [hp, Bool.not_true, Bool.false_eq_true, if_false] at h
        cases hb : ccRow cc ctx (strictRow (mrow T.t i) T.den) with
        | none => rw [hb] at h; simp at h
        | some b =>
          rw [hb] at h
          cases b with
          | true =>
            simp only at h
            exact refineMixed2_pointwise P is _ _ sg' fs' hstep' h hinv
          | false =>
            simp only at h
            have hPi : P i .negative := hstep i (by simp) (hm' ▸ hinv i) hp hb
            exact refineMixed2_pointwise P is _ _ sg' fs' hstep' h (pointwise_set hinv hPi)
      · have hp' : hasPositive (mrow T.s i) = false := by simpa using hp
        simp only [hp', Bool.not_false, if_true] at h
        exact refineMixed2_pointwise P is sg fs sg' fs' hstep' h hinv

end PPLV.PIPCore
