import PPLV.Solver.PIPCoreProofsPivot3
/-!
# C07 stage 2 — pivot proofs, part 4: the loop invariant of the three passes of `pivot`

`T1` is the normalised tableau after the pivot row has been replaced by the identity row.  An
*unprocessed* entry of the current tableau is `f *` the entry of `T1`, a *processed* entry times `spp`
is `f *` its target numerator; `f > 0` is the product of the scale factors so far.
-/
namespace PPLV.PIPCore.Piv

/-! ### the scale factor -/

/-- the ratio `spp / gcd p spp` the code scales by is positive and makes the division of `p` exact -/
theorem sf_facts {spp : Int} (hspp : 0 < spp) (p : Int) :
    0 < spp / gcdI p spp ∧ spp ∣ p * (spp / gcdI p spp) := by
  have d1 : gcdI p spp ∣ spp := gcdI_dvd_right p spp
  have d2 : gcdI p spp ∣ p := gcdI_dvd_left p spp
  have g0 : 0 ≤ gcdI p spp := gcdI_nonneg p spp
  generalize gcdI p spp = g at d1 d2 g0
  obtain ⟨k, hk⟩ := d1
  obtain ⟨m, hm⟩ := d2
  have gne : g ≠ 0 := by
    rintro rfl; rw [Int.zero_mul] at hk; omega
  have e : spp / g = k := by rw [hk, Int.mul_ediv_cancel_left _ gne]
  rw [e]
  constructor
  · by_contra hk0
    have : g * k ≤ 0 := Int.mul_nonpos_of_nonneg_of_nonpos g0 (not_lt.mp hk0)
    omega
  · exact ⟨m, by rw [hm, hk]; ring⟩

theorem dvd_of_not_emod_ne {p spp : Int} (h : ¬ p % spp ≠ 0) : spp ∣ p :=
  Int.dvd_of_emod_eq_zero (not_not.mp h)

/-! ### one family of entries -/

/-- entries `cur i j` (`i < n`, `j < m`): processed ones (`P`) satisfy `cur * spp = f * tgt`,
    the others `cur = f * orig` -/
def EntInv (spp f : Int) (P : Nat → Nat → Prop) (n m : Nat) (cur orig tgt : Nat → Nat → Int) : Prop :=
  ∀ i j, i < n → j < m →
    (P i j → cur i j * spp = f * tgt i j) ∧ (¬ P i j → cur i j = f * orig i j)

theorem EntInv.scale {spp f : Int} {P : Nat → Nat → Prop} {n m : Nat}
    {cur orig tgt cur' : Nat → Nat → Int} (h : EntInv spp f P n m cur orig tgt) (r : Int)
    (hc : ∀ i j, cur' i j = cur i j * r) : EntInv spp (f * r) P n m cur' orig tgt := by
  intro i j hi hj
  obtain ⟨h1, h2⟩ := h i j hi hj
  constructor
  · intro hp; rw [hc]; linear_combination r * h1 hp
  · intro hp; rw [hc]; linear_combination r * h2 hp

theorem EntInv.mono {spp f : Int} {P P' : Nat → Nat → Prop} {n m : Nat}
    {cur orig tgt : Nat → Nat → Int} (h : EntInv spp f P n m cur orig tgt)
    (hsub : ∀ i j, i < n → j < m → P i j → P' i j)
    (hnew : ∀ i j, i < n → j < m → P' i j → ¬ P i j → cur i j * spp = f * tgt i j) :
    EntInv spp f P' n m cur orig tgt := by
  intro i j hi hj
  obtain ⟨h1, h2⟩ := h i j hi hj
  constructor
  · intro hp
    by_cases hP : P i j
    · exact h1 hP
    · exact hnew i j hi hj hp hP
  · intro hp
    exact h2 (fun hP => hp (hsub i j hi hj hP))

/-- storing a finished value at `(i0, j0)` -/
theorem EntInv.set {spp f : Int} {P : Nat → Nat → Prop} {n m : Nat}
    {cur orig tgt cur' : Nat → Nat → Int} (h : EntInv spp f P n m cur orig tgt) (i0 j0 : Nat)
    (hc : ∀ i j, (i ≠ i0 ∨ j ≠ j0) → cur' i j = cur i j)
    (hv : cur' i0 j0 * spp = f * tgt i0 j0) :
    EntInv spp f (fun i j => P i j ∨ (i = i0 ∧ j = j0)) n m cur' orig tgt := by
  intro i j hi hj
  obtain ⟨h1, h2⟩ := h i j hi hj
  by_cases e : i = i0 ∧ j = j0
  · obtain ⟨rfl, rfl⟩ := e
    exact ⟨fun _ => hv, fun hn => absurd (Or.inr ⟨rfl, rfl⟩) hn⟩
  · have e' : i ≠ i0 ∨ j ≠ j0 := by
      by_cases a : i = i0
      · right; intro b; exact e ⟨a, b⟩
      · left; exact a
    rw [hc i j e']
    constructor
    · rintro (hp | hp)
      · exact h1 hp
      · exact absurd hp e
    · intro hn; exact h2 (fun hp => hn (Or.inl hp))

/-! ### the invariant -/

section inv
variable (T1 : Tableau) (sp tp : Row) (spp : Int) (pj : Nat)

/-- target numerator of `s[i][j]` -/
def tgtS (i j : Nat) : Int :=
  if j = pj then mget T1.s i pj * T1.den
  else mget T1.s i j * spp - mget T1.s i pj * rget sp j

/-- target numerator of `t[i][c]` -/
def tgtT (i c : Nat) : Int := mget T1.t i c * spp - mget T1.s i pj * rget tp c

structure PInv (PS PT : Nat → Nat → Prop) (T : Tableau) (f : Int) : Prop where
  f_pos : 0 < f
  den_eq : T.den = f * T1.den
  s_len : T.s.length = T1.s.length
  t_len : T.t.length = T1.s.length
  ns_eq : T.ns = T1.ns
  nt_eq : T.nt = T1.nt
  s_rows : RowsLen T.s T1.ns
  t_rows : RowsLen T.t T1.nt
  s_ent : EntInv spp f PS T1.s.length T1.ns (mget T.s) (mget T1.s) (tgtS T1 sp spp pj)
  t_ent : EntInv spp f PT T1.s.length T1.nt (mget T.t) (mget T1.t) (tgtT T1 tp spp pj)

variable {T1 sp tp spp pj}

theorem PInv.scale {PS PT : Nat → Nat → Prop} {T : Tableau} {f : Int}
    (h : PInv T1 sp tp spp pj PS PT T f) {r : Int} (hr : 0 < r) :
    PInv T1 sp tp spp pj PS PT (T.scale r) (f * r) where
  f_pos := Int.mul_pos h.f_pos hr
  den_eq := by rw [scale_den, h.den_eq]; ring
  s_len := by rw [scale_s_length]; exact h.s_len
  t_len := by rw [scale_t_length]; exact h.t_len
  ns_eq := h.ns_eq
  nt_eq := h.nt_eq
  s_rows := h.s_rows.map (· * r)
  t_rows := h.t_rows.map (· * r)
  s_ent := h.s_ent.scale r (mget_scale_s T r)
  t_ent := h.t_ent.scale r (mget_scale_t T r)

theorem PInv.mono {PS PT PS' PT' : Nat → Nat → Prop} {T : Tableau} {f : Int}
    (h : PInv T1 sp tp spp pj PS PT T f)
    (hsS : ∀ i j, i < T1.s.length → j < T1.ns → PS i j → PS' i j)
    (hnS : ∀ i j, i < T1.s.length → j < T1.ns → PS' i j → ¬ PS i j →
      mget T.s i j * spp = f * tgtS T1 sp spp pj i j)
    (hsT : ∀ i j, i < T1.s.length → j < T1.nt → PT i j → PT' i j)
    (hnT : ∀ i j, i < T1.s.length → j < T1.nt → PT' i j → ¬ PT i j →
      mget T.t i j * spp = f * tgtT T1 tp spp pj i j) :
    PInv T1 sp tp spp pj PS' PT' T f :=
  { h with s_ent := h.s_ent.mono hsS hnS, t_ent := h.t_ent.mono hsT hnT }

theorem PInv.monoS {PS PT PS' : Nat → Nat → Prop} {T : Tableau} {f : Int}
    (h : PInv T1 sp tp spp pj PS PT T f)
    (hsS : ∀ i j, i < T1.s.length → j < T1.ns → PS i j → PS' i j)
    (hnS : ∀ i j, i < T1.s.length → j < T1.ns → PS' i j → ¬ PS i j →
      mget T.s i j * spp = f * tgtS T1 sp spp pj i j) :
    PInv T1 sp tp spp pj PS' PT T f :=
  h.mono hsS hnS (fun _ _ _ _ hp => hp) (fun _ _ _ _ hp hn => absurd hp hn)

theorem PInv.monoT {PS PT PT' : Nat → Nat → Prop} {T : Tableau} {f : Int}
    (h : PInv T1 sp tp spp pj PS PT T f)
    (hsT : ∀ i j, i < T1.s.length → j < T1.nt → PT i j → PT' i j)
    (hnT : ∀ i j, i < T1.s.length → j < T1.nt → PT' i j → ¬ PT i j →
      mget T.t i j * spp = f * tgtT T1 tp spp pj i j) :
    PInv T1 sp tp spp pj PS PT' T f :=
  h.mono (fun _ _ _ _ hp => hp) (fun _ _ _ _ hp hn => absurd hp hn) hsT hnT

theorem PInv.setS {PS PT : Nat → Nat → Prop} {T : Tableau} {f : Int}
    (h : PInv T1 sp tp spp pj PS PT T f) {i j : Nat} (hi : i < T1.s.length) (hj : j < T1.ns)
    {x : Int} (hx : x * spp = f * tgtS T1 sp spp pj i j) :
    PInv T1 sp tp spp pj (fun a b => PS a b ∨ (a = i ∧ b = j)) PT
      { T with s := mset T.s i j x } f where
  f_pos := h.f_pos
  den_eq := h.den_eq
  s_len := by show (mset T.s i j x).length = _; rw [mset_length]; exact h.s_len
  t_len := h.t_len
  ns_eq := h.ns_eq
  nt_eq := h.nt_eq
  s_rows := h.s_rows.mset i j x
  t_rows := h.t_rows
  s_ent := by
    have hi' : i < T.s.length := by rw [h.s_len]; exact hi
    refine h.s_ent.set i j (fun a b hab => ?_) ?_
    · show mget (mset T.s i j x) a b = _
      exact mget_mset_ne x (by rcases hab with e | e; exact Or.inl (Ne.symm e); exact Or.inr (Ne.symm e))
    · show mget (mset T.s i j x) i j * spp = _
      rw [mget_mset_same x hi' (by rw [h.s_rows.mrow hi']; exact hj)]; exact hx
  t_ent := h.t_ent

theorem PInv.setT {PS PT : Nat → Nat → Prop} {T : Tableau} {f : Int}
    (h : PInv T1 sp tp spp pj PS PT T f) {i j : Nat} (hi : i < T1.s.length) (hj : j < T1.nt)
    {x : Int} (hx : x * spp = f * tgtT T1 tp spp pj i j) :
    PInv T1 sp tp spp pj PS (fun a b => PT a b ∨ (a = i ∧ b = j))
      { T with t := mset T.t i j x } f where
  f_pos := h.f_pos
  den_eq := h.den_eq
  s_len := h.s_len
  t_len := by show (mset T.t i j x).length = _; rw [mset_length]; exact h.t_len
  ns_eq := h.ns_eq
  nt_eq := h.nt_eq
  s_rows := h.s_rows
  t_rows := h.t_rows.mset i j x
  s_ent := h.s_ent
  t_ent := by
    have hi' : i < T.t.length := by rw [h.t_len]; exact hi
    refine h.t_ent.set i j (fun a b hab => ?_) ?_
    · show mget (mset T.t i j x) a b = _
      exact mget_mset_ne x (by rcases hab with e | e; exact Or.inl (Ne.symm e); exact Or.inr (Ne.symm e))
    · show mget (mset T.t i j x) i j * spp = _
      rw [mget_mset_same x hi' (by rw [h.t_rows.mrow hi']; exact hj)]; exact hx

/-- reading an unprocessed `s` entry -/
theorem PInv.s_raw {PS PT : Nat → Nat → Prop} {T : Tableau} {f : Int}
    (h : PInv T1 sp tp spp pj PS PT T f) {i j : Nat} (hi : i < T1.s.length) (hj : j < T1.ns)
    (hn : ¬ PS i j) : mget T.s i j = f * mget T1.s i j := (h.s_ent i j hi hj).2 hn

theorem PInv.t_raw {PS PT : Nat → Nat → Prop} {T : Tableau} {f : Int}
    (h : PInv T1 sp tp spp pj PS PT T f) {i j : Nat} (hi : i < T1.s.length) (hj : j < T1.nt)
    (hn : ¬ PT i j) : mget T.t i j = f * mget T1.t i j := (h.t_ent i j hi hj).2 hn

end inv

/-! ### a generic `foldl` lemma: visiting the elements of a duplicate-free list -/

theorem foldl_visit {α β : Type} (J : (β → Prop) → α → Prop) (step : α → β → α) (Q : β → Prop)
    (hstep : ∀ (V : β → Prop) a b, Q b → ¬ V b → J V a → J (fun x => V x ∨ x = b) (step a b)) :
    ∀ (l : List β) (V : β → Prop) a, l.Nodup → (∀ b ∈ l, Q b ∧ ¬ V b) → J V a →
      J (fun x => V x ∨ x ∈ l) (l.foldl step a) := by
  intro l
  induction l with
  | nil =>
    intro V a _ _ h
    have : (fun x => V x ∨ x ∈ ([] : List β)) = V := by funext x; simp
    rw [this]; exact h
  | cons b l ih =>
    intro V a hnd hq h
    rw [List.nodup_cons] at hnd
    have h1 := hstep V a b (hq b (by simp)).1 (hq b (by simp)).2 h
    have h2 := ih (fun x => V x ∨ x = b) (step a b) hnd.2 (fun c hc => by
      refine ⟨(hq c (by simp [hc])).1, ?_⟩
      rintro (hv | rfl)
      · exact (hq c (by simp [hc])).2 hv
      · exact hnd.1 hc) h1
    have : (fun x => V x ∨ x ∈ b :: l) = (fun x => (V x ∨ x = b) ∨ x ∈ l) := by
      funext x; simp [or_assoc]
    rw [this]; exact h2

theorem rowsDown_nodup (n : Nat) : (rowsDown n).Nodup := by
  unfold rowsDown
  have h : (List.range n).Nodup := List.nodup_range
  unfold List.Nodup at *
  rw [List.pairwise_reverse]
  exact h.imp (fun hab => Ne.symm hab)

theorem mem_rowsDown {n i : Nat} : i ∈ rowsDown n ↔ i < n := by
  unfold rowsDown; simp

end PPLV.PIPCore.Piv
