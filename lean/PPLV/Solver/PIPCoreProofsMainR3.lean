import PPLV.Solver.PIPCoreProofsMainR2
import PPLV.Solver.PIPCoreProofsTree5
import PPLV.Solver.PIPCoreProofsMain7
/-!
# C07 stage 2 — the repaired solver from a fresh root: both halves over the parameter columns
-/
namespace PPLV.PIPCore

theorem rootOK_invR {root : SolNode} {ctx0 : Mat} (h : RootOK root ctx0) :
    InvR (fun q => ParamVec root.tab.nt q ∧ CtxSat ctx0 q) root.tab.nt root ctx0 :=
  ⟨rootOK_inv h, fun q _ hc => by
    rw [h.cons] at hc
    exact absurd hc (by simp [consHold])⟩

/-- **the repaired solver is partially correct, both halves**: at every non-negative integer parameter
    vector of the initial context, a point is the lexicographic minimum and bottom means infeasible -/
theorem solve_correct {cc : Mat → Option Bool} (hcc : CCContract cc) (ctl : Ctl)
    {cfc : Bool} {fuel : Nat} {root : SolNode} {ctx0 : Mat} (h : RootOK root ctx0) {r : Option CTree}
    (hs : solve cc ctl cfc fuel root ctx0 = .done r) {q : List Int} (hq : ParamVec root.tab.nt q)
    (hsat : CtxSat ctx0 q) : Claim root q (evalRes r q) := by
  have := solveGo_correct hcc ctl cfc fuel true root ctx0 r _ _ hs (fun _ => rootOK_invR h) q ⟨hq, hsat⟩
  rw [h.arts] at this
  exact this

/-- … through the public tree semantics: a point of `Tree.eval` is the lexicographic minimum -/
theorem solve_point_eval {cc : Mat → Option Bool} (hcc : CCContract cc) (ctl : Ctl)
    {cfc : Bool} {fuel : Nat} {root : SolNode} {ctx0 : Mat} (h : RootOK root ctx0) {r : Option CTree}
    (hs : solve cc ctl cfc fuel root ctx0 = .done r) {θ : List Int} (hlen : θ.length + 1 = root.tab.nt)
    (hnn : ∀ a ∈ θ, 0 ≤ a) (hsat : CtxSat ctx0 (1 :: θ)) {x : List Int}
    (hx : (resToTree r).eval θ = .point x) : IsLexMin root (1 :: θ) x := by
  have hq : ParamVec root.tab.nt (1 :: θ) := ⟨by simp [hlen], rfl, fun a ha => by
    rcases List.mem_cons.mp ha with rfl | ha
    · decide
    · exact hnn a ha⟩
  have := solve_correct hcc ctl h hs hq hsat
  rw [resToTree_eval_point r θ x hx] at this
  exact this

/-- … and bottom of `Tree.eval` means that there is no feasible non-negative integer valuation -/
theorem solve_bottom_eval {cc : Mat → Option Bool} (hcc : CCContract cc) (ctl : Ctl)
    {cfc : Bool} {fuel : Nat} {root : SolNode} {ctx0 : Mat} (h : RootOK root ctx0) {r : Option CTree}
    (hs : solve cc ctl cfc fuel root ctx0 = .done r) {θ : List Int} (hlen : θ.length + 1 = root.tab.nt)
    (hnn : ∀ a ∈ θ, 0 ≤ a) (hsat : CtxSat ctx0 (1 :: θ))
    (hx : (resToTree r).eval θ = .bottom) : Infeasible root (1 :: θ) := by
  have hq : ParamVec root.tab.nt (1 :: θ) := ⟨by simp [hlen], rfl, fun a ha => by
    rcases List.mem_cons.mp ha with rfl | ha
    · decide
    · exact hnn a ha⟩
  have := solve_correct hcc ctl h hs hq hsat
  rw [resToTree_eval_bottom r θ hx] at this
  exact this

/-! ### the witness of KF-C07-12 under the repaired rule -/

def kfTreeR : PPLV.PIP.Tree :=
  match solve (ccModel 40) { cut := 0, piv := 1 } false 40 kfRoot [] with
  | .done r => resToTree r
  | .fuel => .dec [] [] .bottom .bottom

set_option maxRecDepth 100000 in
theorem kf_repaired_point : kfTreeR.eval [1, 0] = .point [0, 0, 3] := by decide +kernel

end PPLV.PIPCore
