import PPLV.Solver.PendingProofsCand

/-!
# C06 stage 3 (b2) — `erase_artificials` keeps the solutions that have every artificial at 0

`NoArt b y`: the valuation `y` is 0 on every column `≥ b` (the artificial columns `[b, e)` and the sign
column `e = numCols − 1`).  `ArtInv b e t`: `base` and the tableau have the same number of rows and a
row whose basic variable is artificial has inhomogeneous term 0 (the first phase ended with value 0:
the artificial variables still in the base are 0 in the basic solution).

* `eraseLoop_solutions`: step 1 (pivots on original columns, removal of redundant rows) keeps `Sol` on
  `NoArt` valuations, and keeps `ArtInv`;
* `redundant_row_zero`: a row removed as redundant is zero on every column `< b` (it reads `0 = 0`);
* `erase_artificials_valid`: the whole function.
-/
namespace PPLV.Solver.Pend
open PPLV.Lin PPLV.Solver.Tab

def NoArt (b : Nat) (y : Val) : Prop := ∀ j, b ≤ j → y j = 0

structure ArtInv (b e : Nat) (t : Tab) : Prop where
  lenB : t.base.length = t.T.length
  artZero : ∀ i, i < t.T.length → b ≤ t.base.getD i 0 → t.base.getD i 0 < e → (t.T.getD i []).get 0 = 0

theorem dot_eq_zero_of_support' (r : List Int) (x : Val) (h : ∀ j, r.getD j 0 = 0 ∨ x j = 0) : dot r x = 0 := by
  induction r generalizing x with
  | nil => rfl
  | cons a as ih =>
    rw [dot_cons]
    have h0 := h 0
    simp only [List.getD_cons_zero] at h0
    have htail : dot as x.tail = 0 := ih x.tail (fun j => by
      have := h (j + 1)
      simpa [Val.tail] using this)
    rw [htail, add_zero]
    rcases h0 with h0 | h0
    · rw [h0]; simp
    · rw [h0]; simp

/-- two rows that agree wherever the valuation is non-zero have the same value -/
theorem dot_congr_support (r1 r2 : List Int) (x : Val) (h : ∀ j, r1.getD j 0 = r2.getD j 0 ∨ x j = 0) :
    dot r1 x = dot r2 x := by
  have h0 : dot (lincomb 1 (-1) r1 r2) x = 0 := by
    apply dot_eq_zero_of_support'
    intro j
    rw [getD_lincomb]
    rcases h j with h | h
    · left; rw [h]; ring
    · right; exact h
  rw [dot_lincomb] at h0
  push_cast at h0
  linarith

theorem firstNonzeroIn_some {r : Row} {lo hi j : Nat} (h : firstNonzeroIn r lo hi = some j) :
    lo ≤ j ∧ j < hi ∧ r.get j ≠ 0 := by
  unfold firstNonzeroIn at h
  have h1 := List.mem_of_find?_eq_some h
  have h2 := List.find?_some h
  rw [List.mem_range'_1] at h1
  exact ⟨h1.1, by omega, by simpa using h2⟩

theorem firstNonzeroIn_none {r : Row} {lo hi : Nat} (h : firstNonzeroIn r lo hi = none) :
    ∀ j, lo ≤ j → j < hi → r.get j = 0 := by
  unfold firstNonzeroIn at h
  intro j h1 h2
  have := List.find?_eq_none.mp h j (by rw [List.mem_range'_1]; omega)
  simpa using this

/-- **a row removed as redundant reads `0 = 0` on the remaining columns** -/
theorem redundant_row_zero {r : Row} {b : Nat} (h : firstNonzeroIn r 1 b = none) (h0 : r.get 0 = 0) :
    ∀ j, j < b → r.get j = 0 := by
  intro j hj
  by_cases hj0 : j = 0
  · rw [hj0]; exact h0
  · exact firstNonzeroIn_none h j (by omega) hj

theorem redundant_rowVal {r : Row} {b : Nat} (h : firstNonzeroIn r 1 b = none) (h0 : r.get 0 = 0)
    (y : Val) (hy : NoArt b y) : rowVal r y = 0 := by
  apply dot_eq_zero_of_support'
  intro j
  by_cases hj : j < b
  · left; exact redundant_row_zero h h0 j hj
  · right; exact hy j (by omega)

theorem getD_set_row (l : List Row) (i k : Nat) (v : Row) (hi : i < l.length) :
    (l.set i v).getD k [] = if k = i then v else l.getD k [] := by
  rw [List.getD_eq_getElem?_getD, List.getElem?_set, List.getD_eq_getElem?_getD]
  by_cases h : i = k
  · subst h; simp [hi]
  · have h' : ¬ k = i := fun a => h a.symm
    simp [h, h']

theorem getD_set_nat' (l : List Nat) (i k v : Nat) (hi : i < l.length) :
    (l.set i v).getD k 0 = if k = i then v else l.getD k 0 := by
  rw [List.getD_eq_getElem?_getD, List.getElem?_set, List.getD_eq_getElem?_getD]
  by_cases h : i = k
  · subst h; simp [hi]
  · have h' : ¬ k = i := fun a => h a.symm
    simp [h, h']

theorem getD_dropLast {α : Type} (l : List α) (k : Nat) (d : α) (hk : k < l.length - 1) :
    l.dropLast.getD k d = l.getD k d := by
  rw [List.getD_eq_getElem?_getD, List.getD_eq_getElem?_getD, List.dropLast_eq_take, List.getElem?_take]
  simp [hk]

/-- one pivot of step 1 keeps `ArtInv` -/
theorem pivot_artInv {b e : Nat} {t : Tab} (h : ArtInv b e t) {i j : Nat} (hi : i < t.T.length)
    (hbi : b ≤ t.base.getD i 0) (hbe : t.base.getD i 0 < e) (hj : j < b) : ArtInv b e (pivot t j i) := by
  have hib : i < t.base.length := by rw [h.lenB]; exact hi
  constructor
  · unfold pivot pivotBase; simp [pivotRows_length, h.lenB]
  · intro k hk hb1 hb2
    have hk' : k < t.T.length := by unfold pivot at hk; rwa [pivotRows_length] at hk
    have hbk : (pivot t j i).base.getD k 0 = if k = i then j else t.base.getD k 0 := by
      unfold pivot pivotBase; exact getD_set_nat' _ _ _ _ hib
    rw [hbk] at hb1 hb2
    by_cases hki : k = i
    · rw [if_pos hki] at hb1; omega
    · rw [if_neg hki] at hb1 hb2
      have hk0 := h.artZero k hk' hb1 hb2
      have hi0 := h.artZero i hi hbi hbe
      have hrow : (pivot t j i).T.getD k [] =
          if k != i && (t.T.getD k []).get j != 0 then linearCombine (t.T.getD k []) (t.T.getD i []) j
          else t.T.getD k [] := by
        unfold pivot; exact pivotRows_getD _ _ _ _ hk'
      rw [hrow]
      split
      · obtain ⟨d, hd, h1, -, -⟩ := linearCombine_spec (t.T.getD k []) (t.T.getD i []) j
        have := h1 0
        rw [hk0, hi0, mul_zero, mul_zero, add_zero] at this
        rcases Int.mul_eq_zero.mp this with h | h
        · omega
        · exact h
      · exact hk0

/-- **step 1 of `erase_artificials`** keeps the solutions among the valuations with every artificial 0 -/
theorem eraseLoop_solutions (b e : Nat) :
    ∀ (fuel i : Nat) (t : Tab), ArtInv b e t →
      ArtInv b e (eraseLoop b e fuel i t) ∧
      ∀ y, NoArt b y → (Sol (eraseLoop b e fuel i t).T y ↔ Sol t.T y) := by
  intro fuel
  induction fuel with
  | zero => intro i t h; exact ⟨h, fun _ _ => Iff.rfl⟩
  | succ fuel ih =>
    intro i t h
    unfold eraseLoop
    by_cases hi : i < t.T.length
    · rw [if_pos hi]
      simp only
      by_cases hart : (decide (b ≤ t.base.getD i 0) && decide (t.base.getD i 0 < e)) = true
      · rw [if_pos hart]
        simp only [Bool.and_eq_true, decide_eq_true_eq] at hart
        cases hf : firstNonzeroIn (t.T.getD i []) 1 b with
        | some j =>
          simp only
          obtain ⟨hj1, hj2, hj3⟩ := firstNonzeroIn_some hf
          have hinv := pivot_artInv h hi hart.1 hart.2 hj2
          obtain ⟨r1, r2⟩ := ih (i + 1) (pivot t j i) hinv
          refine ⟨r1, fun y hy => (r2 y hy).trans ?_⟩
          unfold pivot
          exact pivotRows_solutions t.T j i hi hj3 y
        | none =>
          simp only
          have hi0 := h.artZero i hi hart.1 hart.2
          have hred : ∀ y, NoArt b y → rowVal (t.T.getD i []) y = 0 := fun y hy => redundant_rowVal hf hi0 y hy
          have hib : i < t.base.length := by rw [h.lenB]; exact hi
          by_cases hlast : i < t.T.length - 1
          · rw [if_pos hlast]
            -- the last row replaces row i
            have hinv : ArtInv b e ⟨(t.T.set i (t.T.getD (t.T.length - 1) [])).dropLast, t.cost,
                (t.base.set i (t.base.getD (t.T.length - 1) 0)).dropLast⟩ := by
              constructor
              · simp [h.lenB]
              · intro k hk hb1 hb2
                simp only [List.length_dropLast, List.length_set] at hk
                simp only at hb1 hb2 ⊢
                rw [getD_dropLast _ _ _ (by simp; rw [h.lenB]; exact hk), getD_set_nat' _ _ _ _ hib] at hb1 hb2
                rw [getD_dropLast _ _ _ (by simp; exact hk), getD_set_row _ _ _ _ hi]
                by_cases hki : k = i
                · rw [if_pos hki] at hb1 hb2 ⊢
                  exact h.artZero _ (by omega) hb1 hb2
                · rw [if_neg hki] at hb1 hb2 ⊢
                  exact h.artZero k (by omega) hb1 hb2
            obtain ⟨r1, r2⟩ := ih i _ hinv
            refine ⟨r1, fun y hy => (r2 y hy).trans ?_⟩
            simp only
            unfold Sol
            simp only [List.length_dropLast, List.length_set]
            constructor
            · intro hs k hk
              by_cases hkl : k < t.T.length - 1
              · by_cases hki : k = i
                · rw [hki]; exact hred y hy
                · have := hs k hkl
                  rw [getD_dropLast _ _ _ (by simp; exact hkl), getD_set_row _ _ _ _ hi, if_neg hki] at this
                  exact this
              · have hkeq : k = t.T.length - 1 := by omega
                have := hs i hlast
                rw [getD_dropLast _ _ _ (by simp; exact hlast), getD_set_row _ _ _ _ hi, if_pos rfl] at this
                rw [hkeq]; exact this
            · intro hs k hk
              rw [getD_dropLast _ _ _ (by simp; exact hk), getD_set_row _ _ _ _ hi]
              by_cases hki : k = i
              · rw [if_pos hki]; exact hs _ (by omega)
              · rw [if_neg hki]; exact hs k (by omega)
          · rw [if_neg hlast]
            have hieq : i = t.T.length - 1 := by omega
            have hinv : ArtInv b e ⟨t.T.dropLast, t.cost, t.base.dropLast⟩ := by
              constructor
              · simp [h.lenB]
              · intro k hk hb1 hb2
                simp only [List.length_dropLast] at hk
                simp only at hb1 hb2 ⊢
                rw [getD_dropLast _ _ _ (by rw [h.lenB]; exact hk)] at hb1 hb2
                rw [getD_dropLast _ _ _ hk]
                exact h.artZero k (by omega) hb1 hb2
            obtain ⟨r1, r2⟩ := ih (i + 1) _ hinv
            refine ⟨r1, fun y hy => (r2 y hy).trans ?_⟩
            simp only
            unfold Sol
            simp only [List.length_dropLast]
            constructor
            · intro hs k hk
              by_cases hkl : k < t.T.length - 1
              · have := hs k hkl
                rwa [getD_dropLast _ _ _ hkl] at this
              · have hkeq : k = i := by omega
                rw [hkeq]; exact hred y hy
            · intro hs k hk
              rw [getD_dropLast _ _ _ hk]
              exact hs k (by omega)
      · rw [if_neg hart]
        exact ih (i + 1) t h
    · rw [if_neg hi]
      exact ⟨h, fun _ _ => Iff.rfl⟩

/-- truncating a row after column `b` and zeroing column `b` does not change its value on a valuation
    that is 0 from column `b` on -/
theorem rowVal_truncate (r : Row) (b : Nat) (y : Val) (hy : NoArt b y) :
    rowVal ((r.take (b + 1)).set b 0) y = rowVal r y := by
  unfold rowVal
  apply dot_congr_support
  intro j
  by_cases hj : j < b
  · left
    rw [List.getD_eq_getElem?_getD, List.getElem?_set, List.getD_eq_getElem?_getD]
    have : ¬ b = j := by omega
    simp only [this, if_false]
    rw [List.getElem?_take]
    simp [show j < b + 1 by omega]
  · right; exact hy j (by omega)

/-- (b2) **`erase_artificials` is valid.**  Artificial columns `[b, e)` are the trailing columns before
    the sign column (`e = numCols − 1`, as `process_pending_constraints` lays them out); the first
    phase ended with value 0, i.e. every artificial still in the base has value 0 (`ArtInv`).  Then the
    new tableau has `b + 1` columns and, on every valuation `y` that is 0 on the artificial and sign
    columns, exactly the solutions of the old one; `ArtInv` still holds. -/
theorem erase_artificials_valid (b e numCols : Nat) (t : Tab) (hb : 1 ≤ b) (hbe : b < e) (he : e = numCols - 1)
    (h : ArtInv b e t) :
    (eraseArtificials b e numCols t).2 = b + 1 ∧
    (eraseArtificials b e numCols t).1.base.length = (eraseArtificials b e numCols t).1.T.length ∧
    ∀ y, NoArt b y → (Sol (eraseArtificials b e numCols t).1.T y ↔ Sol t.T y) := by
  obtain ⟨r1, r2⟩ := eraseLoop_solutions b e (t.T.length + 1) 0 t h
  have hnc : numCols - (e - b) = b + 1 := by omega
  unfold eraseArtificials
  simp only [hnc]
  refine ⟨trivial, by simp [r1.lenB], fun y hy => Iff.trans ?_ (r2 y hy)⟩
  unfold Sol
  simp only [List.length_map]
  have hrow : ∀ i, i < (eraseLoop b e (t.T.length + 1) 0 t).T.length →
      ((eraseLoop b e (t.T.length + 1) 0 t).T.map fun r => (r.take (b + 1)).set (b + 1 - 1) 0).getD i [] =
        (((eraseLoop b e (t.T.length + 1) 0 t).T.getD i []).take (b + 1)).set b 0 := by
    intro i hi
    rw [List.getD_eq_getElem?_getD, List.getElem?_map, List.getD_eq_getElem?_getD]
    rw [List.getElem?_eq_getElem hi]
    simp
  constructor
  · intro hs i hi
    have := hs i hi
    rw [hrow i hi, rowVal_truncate _ b y hy] at this
    exact this
  · intro hs i hi
    rw [hrow i hi, rowVal_truncate _ b y hy]
    exact hs i hi

end PPLV.Solver.Pend
