import PPLV.Solver.PIPCoreProofsPivot13
/-!
# C07 stage 2 — the pivot family, phase 2: headline theorems (namespace `PPLV.PIPCore`)

* (M1) `pivot_signweak`: the incremental sign bookkeeping of the pivot keeps `SignAt`;
* (M6) the rational reading: `tabsat_cast`, `normalize_tabsatQ`, `pivot_tabsatQ`, `pivot_intinv`,
  `normalize_intinv` (plus `scale_tabsatQ`, `normalize_signAt`, `pivotSpec_tabsatQ`).

Auxiliary material: `PPLV.PIPCore.Piv`, files `PIPCoreProofsPivot11.lean` .. `PIPCoreProofsPivot13.lean`.
-/
namespace PPLV.PIPCore

/-! ### (M1) signs -/

/-- `normalize` keeps the cached signs true (up to one unit) -/
theorem normalize_signAt {nd : SolNode} (h : WF nd) {q : List Int} (hs : SignAt nd q) :
    SignAt { nd with tab := nd.tab.normalize } q := Piv.normalize_signAt h hs

/-- **the incremental sign bookkeeping of the pivot (`pivotStepT`/`signStep`, PIP_Tree.cc:2999-3023)
    keeps the cached signs true up to one unit** -/
theorem pivot_signweak {nd : SolNode} (h : WF nd) {pi pj : Nat} (hpi : pi < nd.tab.s.length)
    (hpj : pj < nd.tab.ns) (hspp : 0 < mget nd.tab.s pi pj) {q : List Int}
    (hq : ParamVec nd.tab.nt q) (hs : SignAt nd q) : SignAt (pivot nd pi pj) q :=
  Piv.pivot_signweak h hpi hpj hspp hq hs

/-! ### (M6) the rational reading -/

theorem tabsat_cast (nd : SolNode) (v : Nat → Int) (q : List Int) :
    TabSat nd v q ↔ TabSatQ nd (fun k => (v k : ℚ)) q := Piv.tabsat_cast nd v q

theorem scale_tabsatQ (nd : SolNode) {r : Int} (hr : r ≠ 0) (v : Nat → ℚ) (q : List Int) :
    TabSatQ { nd with tab := nd.tab.scale r } v q ↔ TabSatQ nd v q := Piv.scale_tabsatQ nd hr v q

theorem normalize_tabsatQ {nd : SolNode} (h : WF nd) (v : Nat → ℚ) (q : List Int) :
    TabSatQ { nd with tab := nd.tab.normalize } v q ↔ TabSatQ nd v q := Piv.normalize_tabsatQ h v q

theorem pivotSpec_tabsatQ {nd0 nd' : SolNode} {pi pj : Nat} {f : Int} (h : WF nd0)
    (hpi : pi < nd0.tab.s.length) (hpj : pj < nd0.tab.ns) (hspp : mget nd0.tab.s pi pj ≠ 0)
    (hs : PivotSpec nd0 nd' pi pj f) {q : List Int} (hq : q.length = nd0.tab.nt) :
    ∀ v : Nat → ℚ, TabSatQ nd0 v q ↔ TabSatQ nd' v q := Piv.pivotSpec_tabsatQ h hpi hpj hspp hs hq

/-- **the pivot does not change the rational solutions of the tableau** -/
theorem pivot_tabsatQ {nd : SolNode} (h : WF nd) {pi pj : Nat} (hpi : pi < nd.tab.s.length)
    (hpj : pj < nd.tab.ns) (hspp : 0 < mget nd.tab.s pi pj) {q : List Int}
    (hq : q.length = nd.tab.nt) :
    ∀ v : Nat → ℚ, TabSatQ nd v q ↔ TabSatQ (pivot nd pi pj) v q := Piv.pivot_tabsatQ h hpi hpj hspp hq

theorem pivot_intinv {nd : SolNode} (h : WF nd) {pi pj : Nat} (hpi : pi < nd.tab.s.length)
    (hpj : pj < nd.tab.ns) (hspp : 0 < mget nd.tab.s pi pj) {q : List Int}
    (hq : q.length = nd.tab.nt) (hI : IntInv nd q) : IntInv (pivot nd pi pj) q :=
  Piv.pivot_intinv h hpi hpj hspp hq hI

theorem normalize_intinv {nd : SolNode} (h : WF nd) {q : List Int} (hI : IntInv nd q) :
    IntInv { nd with tab := nd.tab.normalize } q := Piv.normalize_intinv h hI

/-- `pivot` keeps the number of columns and of variables -/
theorem pivot_ns {nd : SolNode} (h : WF nd) {pi pj : Nat} (hpi : pi < nd.tab.s.length)
    (hpj : pj < nd.tab.ns) (hspp : 0 < mget nd.tab.s pi pj) :
    (pivot nd pi pj).tab.ns = nd.tab.ns ∧ (pivot nd pi pj).tab.nt = nd.tab.nt
      ∧ (pivot nd pi pj).tab.s.length = nd.tab.s.length
      ∧ (pivot nd pi pj).mapping.length = nd.mapping.length := by
  obtain ⟨f, hS⟩ := pivot_spec h hpi hpj ((normalize_sign h pi pj).mpr hspp)
  have sh := normalize_shape nd.tab
  exact ⟨hS.shape.2.2.1.trans sh.2.2.1, hS.shape.2.2.2.trans sh.2.2.2, hS.shape.1.trans sh.1,
    Piv.pivot_mapping_length nd pi pj⟩

/-! ### non-vacuity -/

namespace Piv

/-- `exNd` with a pivot row whose parameter part has one sign: `4 x2 = 6 x0 - 2 x1 - 8`,
    `4 x3 = 2 x0 + 4 x1 + 10`; cached signs NEGATIVE, POSITIVE -/
def exNdS : SolNode :=
  { exNd with tab := { exNd.tab with t := [[-8, 0], [10, 0]] }, sign := [.negative, .positive] }

theorem exNdS_wf : WF exNdS where
  rows_eq := by decide
  s_cols := by decide
  t_cols := by decide
  den_pos := by decide
  vr_len := by decide
  vc_len := by decide
  sign_len := by decide
  map_len := by decide
  basis_len := by decide
  vr_ok := by decide
  vc_ok := by decide
  map_ok := by decide

theorem exNdS_signAt : SignAt exNdS [1, 2] := by
  intro k
  match k with
  | 0 => show dot (mrow exNdS.tab.t 0) [1, 2] < exNdS.tab.den; decide
  | 1 => show -exNdS.tab.den < dot (mrow exNdS.tab.t 1) [1, 2]; decide
  | k + 2 => rw [signGet_of_le (by show 2 ≤ k + 2; omega)]; exact trivial

theorem ex_paramVec : ParamVec exNdS.tab.nt [1, 2] := by
  refine ⟨by decide, by decide, ?_⟩
  intro x hx
  simp at hx
  rcases hx with rfl | rfl <;> decide

/-- the bookkeeping really runs: ZERO (the new pivot row) becomes POSITIVE, POSITIVE stays -/
example : (pivot exNdS 0 0).sign = [.positive, .positive] := by decide

theorem exNdS_hpi : (0 : Nat) < exNdS.tab.s.length := by decide
theorem exNdS_hpj : (0 : Nat) < exNdS.tab.ns := by decide
theorem exNdS_hspp : 0 < mget exNdS.tab.s 0 0 := by decide

theorem exNdS_pivot_signAt : SignAt (pivot exNdS 0 0) [1, 2] :=
  PPLV.PIPCore.pivot_signweak exNdS_wf exNdS_hpi exNdS_hpj exNdS_hspp ex_paramVec exNdS_signAt

/-- ... and the conclusion is not trivial: it says `-6 < 16 - 0 = t'_0·q` and `-6 < 38 = t'_1·q` -/
example : -(pivot exNdS 0 0).tab.den < dot (mrow (pivot exNdS 0 0).tab.t 0) [1, 2] := by
  have h := exNdS_pivot_signAt 0
  rw [show signGet (pivot exNdS 0 0).sign 0 = .positive by decide] at h
  exact h

example : TabSatQ exNd (fun k => (exVal k : ℚ)) [1, 2] :=
  (PPLV.PIPCore.tabsat_cast exNd exVal [1, 2]).mp exVal_sat

example : TabSatQ (pivot exNd 0 0) (fun k => (exVal k : ℚ)) [1, 2] :=
  (PPLV.PIPCore.pivot_tabsatQ exNd_wf (by decide) (by decide) (by decide) (by decide) _).mp
    ((PPLV.PIPCore.tabsat_cast exNd exVal [1, 2]).mp exVal_sat)

example : TabSatQ { exNd with tab := exNd.tab.normalize } (fun k => (exVal k : ℚ)) [1, 2] :=
  (PPLV.PIPCore.normalize_tabsatQ exNd_wf _ _).mpr
    ((PPLV.PIPCore.tabsat_cast exNd exVal [1, 2]).mp exVal_sat)

/-- a node with denominator 1: `x2 = x0 - x1 - 4 + p`, `x3 = x0 + 2 x1 + 5` -/
def exNdI : SolNode :=
  { tab := { s := [[1, -1], [1, 2]], t := [[-4, 1], [5, 0]], den := 1, ns := 2, nt := 2 },
    basis := [true, true, false, false], mapping := [0, 1, 0, 1],
    varRow := [2, 3], varColumn := [0, 1], sign := [.negative, .unknown],
    big := none, arts := [], cons := [] }

theorem exNdI_wf : WF exNdI where
  rows_eq := by decide
  s_cols := by decide
  t_cols := by decide
  den_pos := by decide
  vr_len := by decide
  vc_len := by decide
  sign_len := by decide
  map_len := by decide
  basis_len := by decide
  vr_ok := by decide
  vc_ok := by decide
  map_ok := by decide

theorem exNdI_intinv : IntInv exNdI [1, 2] := by
  intro v hv hint k hk
  have h0 := hv 0 (by decide)
  have h1 := hv 1 (by decide)
  simp [RowHoldsQ, dotQ, dot, mrow, natGet, exNdI] at h0 h1
  obtain ⟨a, ha⟩ := hint 0 (by decide)
  obtain ⟨b, hb⟩ := hint 1 (by decide)
  have hk' : k < 4 := hk
  have : k = 0 ∨ k = 1 ∨ k = 2 ∨ k = 3 := by omega
  rcases this with rfl | rfl | rfl | rfl
  · exact ⟨a, ha⟩
  · exact ⟨b, hb⟩
  · exact ⟨a - b - 2, by rw [h0, ha, hb]; push_cast; ring⟩
  · exact ⟨a + 2 * b + 5, by rw [h1, ha, hb]; push_cast; ring⟩

/-- after the pivot (`x0 = x2 + x1 + 4 - p`, `x3 = x2 + 3 x1 + 9 - p`) the invariant still holds -/
example : IntInv (pivot exNdI 0 0) [1, 2] :=
  PPLV.PIPCore.pivot_intinv exNdI_wf (by decide) (by decide) (by decide) (by decide) exNdI_intinv

example : IntInv { exNdI with tab := exNdI.tab.normalize } [1, 2] :=
  PPLV.PIPCore.normalize_intinv exNdI_wf exNdI_intinv

/-- `IntInv` is not vacuous: it fails for `exNd` (`4 x2 = 6 x0 - 2 x1 - 4` at `x0 = 1, x1 = 0`) -/
example : ¬ IntInv exNd [1, 2] := by
  intro hI
  have hsat : TabSatQ exNd (fun k => if k = 0 then 1 else if k = 2 then 1 / 2 else if k = 3 then 3
      else 0) [1, 2] := by
    intro i hi
    have hi' : i < 2 := hi
    have : i = 0 ∨ i = 1 := by omega
    rcases this with rfl | rfl <;> (simp [RowHoldsQ, dotQ, dot, mrow, natGet, exNd]; try norm_num)
  obtain ⟨z, hz⟩ := hI _ hsat (by
    intro k hk
    have hk' : k < 2 := hk
    have : k = 0 ∨ k = 1 := by omega
    rcases this with rfl | rfl
    · exact ⟨1, by simp⟩
    · exact ⟨0, by simp⟩) 2 (by decide)
  simp at hz
  have : (2 : ℚ) * z = 1 := by rw [← hz]; norm_num
  have h2 : (2 * z : Int) = 1 := by exact_mod_cast this
  omega

end Piv

end PPLV.PIPCore
