import PPLV.Solver.BBSound

/-!
# C06 stage 3 — termination of the modelled `solve_mip` when the integer variables are boxed

In general the recursion need not terminate (e.g. `2x − 2y = 1`, `x`, `y` integer and free: every
node has a fractional vertex).  When every integer variable lies between two integers on the
relaxation of the node, each branching step shrinks the box of the branching variable by at least
one, so `fuel = (sum of the box widths) + 1` suffices — provided the LP oracle answers at all.
-/
namespace PPLV.Solver.BB
open PPLV.Lin PPLV.Solver

/-- `lo i ≤ x_i ≤ hi i` for every integer variable on the relaxation of the node -/
def Boxed (N : Node) (lo hi : Nat → Int) : Prop :=
  ∀ i ∈ N.ivars, ∀ x, Sat N.toProblem.cs x → (lo i : Rat) ≤ x i ∧ x i ≤ (hi i : Rat)

def width (ivars : List Nat) (lo hi : Nat → Int) : Nat := (ivars.map fun i => (hi i - lo i).toNat).sum

theorem width_update_lt (ivars : List Nat) (lo hi lo' hi' : Nat → Int) (i : Nat) (hi_mem : i ∈ ivars)
    (hle : ∀ j, (hi' j - lo' j).toNat ≤ (hi j - lo j).toNat) (hlt : (hi' i - lo' i).toNat < (hi i - lo i).toNat) :
    width ivars lo' hi' < width ivars lo hi := by
  unfold width
  induction ivars with
  | nil => cases hi_mem
  | cons v vs ih =>
    simp only [List.map_cons, List.sum_cons]
    have hrest : (vs.map fun j => (hi' j - lo' j).toNat).sum ≤ (vs.map fun j => (hi j - lo j).toNat).sum := by
      clear ih hi_mem
      induction vs with
      | nil => simp
      | cons u us ihu => simp only [List.map_cons, List.sum_cons]; have := hle u; omega
    rcases List.mem_cons.mp hi_mem with h | h
    · subst h; omega
    · have := ih h; have := hle v; omega

theorem width_pos (ivars : List Nat) (lo hi : Nat → Int) (i : Nat) (hi_mem : i ∈ ivars) (h : lo i < hi i) :
    1 ≤ width ivars lo hi := by
  unfold width
  induction ivars with
  | nil => cases hi_mem
  | cons v vs ih =>
    simp only [List.map_cons, List.sum_cons]
    rcases List.mem_cons.mp hi_mem with h' | h'
    · subst h'; have : 1 ≤ (hi i - lo i).toNat := by omega
      omega
    · have := ih h'; omega

/-- the oracle answers at every well-formed node -/
def Answers (lp : Oracle) : Prop := ∀ N, N.toProblem.WF → ∃ r, lp N = some r

theorem solveMip_terminates (lp : Oracle) (hO : OracleOK lp) (hT : Answers lp) :
    ∀ (fuel : Nat) (N : Node) (inc : Inc) (lo hi : Nat → Int), N.toProblem.WF → Boxed N lo hi →
      width N.ivars lo hi ≤ fuel → (solveMip lp (fuel + 1) inc N).isSome = true := by
  intro fuel
  induction fuel using Nat.strong_induction_on with
  | _ fuel ih =>
    intro N inc lo hi hwf hbox hw
    obtain ⟨r, hlp⟩ := hT N hwf
    have hc := hO N r hwf hlp
    rw [solveMip, hlp]
    simp only
    by_cases hunf : (r.mipStatus == Status.unfeasible) = true
    · rw [if_pos hunf]; rfl
    · rw [if_neg hunf]
      by_cases hpr : (r.mipStatus == Status.optimized && pruned N inc (objAt N r.pt)) = true
      · rw [if_pos hpr]; rfl
      · rw [if_neg hpr]
        have hp : 0 < r.pt.den ∧ Sat N.toProblem.cs r.pt.val := by
          cases r with
          | unfeasible => simp [LPResult.mipStatus] at hunf
          | unbounded p => exact ⟨hc.1, hc.2.1⟩
          | optimized p => exact ⟨hc.1, hc.2.1⟩
        cases hfn : firstNonInt N.ivars r.pt with
        | none => simp only; split <;> rfl
        | some i =>
          simp only
          obtain ⟨hi_mem, hni⟩ := firstNonInt_some N.ivars r.pt i hp.1 hfn
          obtain ⟨hlo, hhi⟩ := hbox i hi_mem r.pt.val hp.2
          set q := coord r.pt i with hq
          have hqv : q = r.pt.val i := rfl
          have hnq : ¬ ∃ z : Int, q = (z : Rat) := by rw [hqv]; exact hni
          -- lo i ≤ ⌊q⌋ < ⌈q⌉ ≤ hi i
          have h1 : lo i ≤ floorQ q := by
            rw [floorQ_eq]; exact Int.le_floor.mpr (by rw [hqv]; exact hlo)
          have h2 : ceilQ q ≤ hi i := by
            rw [ceilQ_eq]; exact Int.ceil_le.mpr (by rw [hqv]; exact hhi)
          have h3 := floor_lt_ceil_of_not_int q hnq
          have hpos : 1 ≤ width N.ivars lo hi := width_pos N.ivars lo hi i hi_mem (by omega)
          obtain ⟨fuel', rfl⟩ : ∃ k, fuel = k + 1 := ⟨fuel - 1, by omega⟩
          obtain ⟨hwfL, -⟩ := wf_addRow_branch N i (floorQ q) hwf hi_mem
          obtain ⟨-, hwfR⟩ := wf_addRow_branch N i (ceilQ q) hwf hi_mem
          -- the left child: hi i := ⌊q⌋
          have hboxL : Boxed (N.addRow (branchLe i (floorQ q))) lo (Function.update hi i (floorQ q)) := by
            intro j hj x hx
            rw [addRow_cs, Sat_append, sat_branchLe] at hx
            obtain ⟨a, b⟩ := hbox j hj x hx.1
            by_cases hji : j = i
            · subst hji; simp only [Function.update_self]; exact ⟨a, hx.2⟩
            · rw [Function.update_of_ne hji]; exact ⟨a, b⟩
          have hwL : width N.ivars lo (Function.update hi i (floorQ q)) < width N.ivars lo hi := by
            apply width_update_lt N.ivars lo hi lo _ i hi_mem
            · intro j
              by_cases hji : j = i
              · subst hji; simp only [Function.update_self]; omega
              · rw [Function.update_of_ne hji]
            · simp only [Function.update_self]; omega
          have hboxR : Boxed (N.addRow (branchGe i (ceilQ q))) (Function.update lo i (ceilQ q)) hi := by
            intro j hj x hx
            rw [addRow_cs, Sat_append, sat_branchGe] at hx
            obtain ⟨a, b⟩ := hbox j hj x hx.1
            by_cases hji : j = i
            · subst hji; simp only [Function.update_self]; exact ⟨hx.2, b⟩
            · rw [Function.update_of_ne hji]; exact ⟨a, b⟩
          have hwR : width N.ivars (Function.update lo i (ceilQ q)) hi < width N.ivars lo hi := by
            apply width_update_lt N.ivars lo hi _ hi i hi_mem
            · intro j
              by_cases hji : j = i
              · subst hji; simp only [Function.update_self]; omega
              · rw [Function.update_of_ne hji]
            · simp only [Function.update_self]; omega
          have eL := ih fuel' (by omega) (N.addRow (branchLe i (floorQ q))) inc lo _ hwfL hboxL (by
            show width N.ivars lo _ ≤ fuel'; omega)
          obtain ⟨⟨st1, inc1⟩, h1'⟩ := Option.isSome_iff_exists.mp eL
          rw [h1']
          simp only
          split
          · rfl
          · have eR := ih fuel' (by omega) (N.addRow (branchGe i (ceilQ q))) inc1 _ hi hwfR hboxR (by
              show width N.ivars _ hi ≤ fuel'; omega)
            obtain ⟨⟨st2, inc2⟩, h2'⟩ := Option.isSome_iff_exists.mp eR
            rw [h2']
            simp only
            split <;> rfl

end PPLV.Solver.BB
