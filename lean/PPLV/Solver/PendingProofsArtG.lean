import PPLV.Solver.PendingProofsIncrDefs

/-!
# C06 stage 3 — package C: the artificial-column loop (:918–:949) with re-merge-unfeasible rows and a row offset

`ArtLoopInv`       — the invariant of both loops of `ppcArtificials`, parameterised by the set `S` of the rows that have
                 received their artificial column so far;
`artLoop_step`  — one more row receives the next artificial column;
`artLoop_foldl` — the loop over the rows `unf` made unfeasible by re-merging;
`artSpecG`     — `ArtSpecG`;
`bsol_unique`  — a solution of a canonical tableau vanishing on the non-basic columns is the basic solution.
-/
namespace PPLV.Solver.Pend
open PPLV.Lin PPLV.Solver PPLV.Solver.Tab

/-- rows `≥ i` not worked out -/
def remCountG (N : Nat) (worked : List Bool) (i : Nat) : Nat :=
  ((List.range N).drop i).countP (fun r => !worked.getD r false)

theorem remCountG_step (N : Nat) (worked : List Bool) (i : Nat) (hi : i < N) :
    remCountG N worked i = (if worked.getD i false then 0 else 1) + remCountG N worked (i+1) := by
  unfold remCountG
  have : (List.range N).drop i = i :: (List.range N).drop (i+1) := by
    rw [List.drop_eq_getElem_cons (by simpa using hi)]; simp
  rw [this, List.countP_cons]
  cases worked.getD i false <;> simp <;> omega

theorem remCountG_end (N : Nat) (worked : List Bool) : remCountG N worked N = 0 := by
  unfold remCountG; rw [List.drop_eq_nil_of_le (by simp)]; rfl

/-- the invariant of the two loops: `S` = the rows that have received an artificial column -/
def ArtLoopInv (N numCols SL : Nat) (T1 : List Row) (base0 : List Nat) (S : Nat → Prop)
    (acc : List Row × Row × List Nat × Nat) : Prop :=
  acc.1.length = N ∧ acc.2.2.1.length = N ∧ acc.2.1.length = numCols ∧ SL ≤ acc.2.2.2 ∧
  (∀ r, r < N → (acc.1.getD r []).length = numCols) ∧
  (∀ r, r < N → S r →
    SL ≤ acc.2.2.1.getD r 0 ∧ acc.2.2.1.getD r 0 < acc.2.2.2 ∧
    (acc.1.getD r []).get (acc.2.2.1.getD r 0) = 1 ∧
    ∀ col, col ≠ acc.2.2.1.getD r 0 → (acc.1.getD r []).get col = (T1.getD r []).get col) ∧
  (∀ r, r < N → ¬ S r → acc.1.getD r [] = T1.getD r [] ∧ acc.2.2.1.getD r 0 = base0.getD r 0) ∧
  (∀ r r', r < N → r' < N → r ≠ r' → S r → (acc.1.getD r' []).get (acc.2.2.1.getD r 0) = 0) ∧
  (∀ j, acc.2.1.getD j 0 = if SL ≤ j ∧ j < acc.2.2.2 then -1 else 0)

theorem artLoop_congr {N numCols SL : Nat} {T1 : List Row} {base0 : List Nat} {S S' : Nat → Prop}
    {acc : List Row × Row × List Nat × Nat} (h : ArtLoopInv N numCols SL T1 base0 S acc) (hS : ∀ r, S r ↔ S' r) :
    ArtLoopInv N numCols SL T1 base0 S' acc := by
  have : S = S' := funext fun r => propext (hS r)
  rw [← this]; exact h

/-- one more row `i` (not yet in `S`) receives the artificial column `ai` -/
theorem artLoop_step {N numCols SL : Nat} {T1 : List Row} {base0 : List Nat} {S : Nat → Prop}
    (hzero : ∀ r, r < N → ∀ col, SL ≤ col → (T1.getD r []).get col = 0)
    (T : List Row) (cst : Row) (bs : List Nat) (ai : Nat)
    (h : ArtLoopInv N numCols SL T1 base0 S (T, cst, bs, ai)) (i : Nat) (hi : i < N) (hnS : ¬ S i)
    (hai : ai < numCols) :
    ArtLoopInv N numCols SL T1 base0 (fun r => S r ∨ r = i)
      (T.set i ((T.getD i []).set ai 1), cst.set ai (-1), bs.set i ai, ai + 1) := by
  obtain ⟨a1, a2, a3, a5, a6, a7, a8, a9, a10⟩ := h
  simp only at a1 a2 a3 a5 a6 a7 a8 a9 a10
  have hiT : i < T.length := by rw [a1]; exact hi
  have hiB : i < bs.length := by rw [a2]; exact hi
  obtain ⟨hTi, hbi⟩ := a8 i hi hnS
  have hlen_i : (T.getD i []).length = numCols := a6 i hi
  have hget_i : ∀ col, Row.get ((T.getD i []).set ai 1) col = if col = ai then 1 else (T.getD i []).get col := by
    intro col
    unfold Row.get
    rw [getD_set_int]
    by_cases hc : col = ai
    · rw [if_pos ⟨hc, by rw [hlen_i]; omega⟩, if_pos hc]
    · rw [if_neg (fun a => hc a.1), if_neg hc]
  refine ⟨by simp only [List.length_set]; exact a1, by simp only [List.length_set]; exact a2,
    by simp only [List.length_set]; exact a3, by simp only; omega, ?_, ?_, ?_, ?_, ?_⟩
  · intro r hr
    simp only
    rw [getD_set_row _ _ _ _ hiT]
    split
    · rw [List.length_set]; exact hlen_i
    · exact a6 r hr
  · intro r hr hSr
    simp only
    rw [getD_set_row _ _ _ _ hiT, getD_set_nat' _ _ _ _ hiB]
    by_cases hreq : r = i
    · rw [if_pos hreq, if_pos hreq]
      refine ⟨a5, by omega, by rw [hget_i, if_pos rfl], fun col hcol => ?_⟩
      rw [hget_i, if_neg hcol, hTi, hreq]
    · rw [if_neg hreq, if_neg hreq]
      have hSr' : S r := by
        rcases hSr with h | h
        · exact h
        · exact absurd h hreq
      obtain ⟨b1, b2, b3, b4⟩ := a7 r hr hSr'
      exact ⟨b1, by omega, b3, b4⟩
  · intro r hr hnot
    simp only
    have hreq : r ≠ i := fun h => hnot (Or.inr h)
    rw [getD_set_row _ _ _ _ hiT, getD_set_nat' _ _ _ _ hiB, if_neg hreq, if_neg hreq]
    exact a8 r hr (fun h => hnot (Or.inl h))
  · intro r r' hr hr' hne hSr
    simp only
    rw [getD_set_row _ _ _ _ hiT, getD_set_nat' _ _ _ _ hiB]
    by_cases hreq : r = i
    · rw [if_pos hreq]
      have hr'i : r' ≠ i := fun h => hne (hreq.trans h.symm)
      rw [if_neg hr'i]
      by_cases hcase : S r'
      · obtain ⟨b1, b2, b3, b4⟩ := a7 r' hr' hcase
        rw [b4 ai (by omega)]
        exact hzero r' hr' ai a5
      · rw [(a8 r' hr' hcase).1]
        exact hzero r' hr' ai a5
    · rw [if_neg hreq]
      have hSr' : S r := by
        rcases hSr with h | h
        · exact h
        · exact absurd h hreq
      obtain ⟨b1, b2, b3, b4⟩ := a7 r hr hSr'
      by_cases hr'i : r' = i
      · rw [if_pos hr'i, hget_i, if_neg (by omega)]
        exact a9 r i hr hi (by omega) hSr'
      · rw [if_neg hr'i]
        exact a9 r r' hr hr' hne hSr'
  · intro j
    simp only
    rw [getD_set_int, a10 j]
    by_cases hj : j = ai
    · rw [if_pos ⟨hj, by rw [a3]; omega⟩, if_pos (by omega)]
    · rw [if_neg (fun a => hj a.1)]
      by_cases h1 : SL ≤ j ∧ j < ai
      · rw [if_pos h1, if_pos (by omega)]
      · rw [if_neg h1, if_neg (by omega)]

/-- the loop over the rows made unfeasible by re-merging -/
theorem artLoop_foldl {N numCols SL : Nat} {T1 : List Row} {base0 : List Nat}
    (hzero : ∀ r, r < N → ∀ col, SL ≤ col → (T1.getD r []).get col = 0) :
    ∀ (unf : List Nat) (S : Nat → Prop) (acc : List Row × Row × List Nat × Nat),
      ArtLoopInv N numCols SL T1 base0 S acc → (∀ r, r ∈ unf → r < N ∧ ¬ S r) → unf.Nodup →
      acc.2.2.2 + unf.length ≤ numCols - 1 → 1 ≤ numCols →
      ArtLoopInv N numCols SL T1 base0 (fun r => S r ∨ r ∈ unf)
        (unf.foldl (fun (acc : List Row × Row × List Nat × Nat) r =>
          let (T, cost, base, ai) := acc
          (T.set r ((T.getD r []).set ai 1), cost.set ai (-1), base.set r ai, ai + 1)) acc) ∧
      (unf.foldl (fun (acc : List Row × Row × List Nat × Nat) r =>
          let (T, cost, base, ai) := acc
          (T.set r ((T.getD r []).set ai 1), cost.set ai (-1), base.set r ai, ai + 1)) acc).2.2.2 =
        acc.2.2.2 + unf.length := by
  intro unf
  induction unf with
  | nil =>
    intro S acc h _ _ _ _
    exact ⟨artLoop_congr h (fun r => by simp), rfl⟩
  | cons i unf ih =>
    intro S acc h hmem hnd hle hnc
    obtain ⟨T, cst, bs, ai⟩ := acc
    simp only [List.length_cons] at hle
    rw [List.foldl_cons]
    have hi := hmem i (List.mem_cons_self)
    have hnd' := List.nodup_cons.mp hnd
    have hstep := artLoop_step hzero T cst bs ai h i hi.1 hi.2 (by omega)
    have := ih (fun r => S r ∨ r = i) _ hstep
      (fun r hr => ⟨(hmem r (List.mem_cons_of_mem _ hr)).1, fun hh => by
        rcases hh with hh | hh
        · exact (hmem r (List.mem_cons_of_mem _ hr)).2 hh
        · rw [hh] at hr; exact hnd'.1 hr⟩)
      hnd'.2 (by simp only; omega) hnc
    refine ⟨artLoop_congr this.1 (fun r => ?_), ?_⟩
    · simp only [List.mem_cons]; tauto
    · rw [this.2]; simp only [List.length_cons]; omega

/-- **package C** -/
theorem artSpecG : ArtSpecG := by
  intro oldRows N numCols SL unf worked T1 base0 hoN hT hB hrows hzero hunf hnd hcount hnc
  unfold ppcArtificials
  simp only
  have hinit : ArtLoopInv N numCols SL T1 base0 (fun _ => False) (T1, zeros numCols, base0, SL) := by
    refine ⟨hT, hB, by simp [zeros], le_refl _, hrows, fun r _ hr => hr.elim, fun r _ _ => ⟨rfl, rfl⟩,
      fun r r' _ _ _ hr => hr.elim, fun j => ?_⟩
    show (zeros numCols).getD j 0 = if SL ≤ j ∧ j < SL then -1 else 0
    rw [zeros_getD, if_neg (by omega)]
  have hcount' : SL + unf.length + remCountG N worked oldRows = numCols - 1 := hcount
  obtain ⟨f1, f2⟩ := artLoop_foldl hzero unf (fun _ => False) (T1, zeros numCols, base0, SL) hinit
    (fun r hr => ⟨by have := hunf r hr; omega, fun h => h⟩) hnd (by simp only; omega) hnc
  simp only at f2
  generalize unf.foldl (fun (acc : List Row × Row × List Nat × Nat) r =>
          let (T, cost, base, ai) := acc
          (T.set r ((T.getD r []).set ai 1), cost.set ai (-1), base.set r ai, ai + 1))
          (T1, zeros numCols, base0, SL) = acc0 at f1 f2 ⊢
  have key := fwdFold_inv
    (fun (i : Nat) (acc : List Row × Row × List Nat × Nat) =>
      ArtLoopInv N numCols SL T1 base0
        (fun r => r ∈ unf ∨ (oldRows ≤ r ∧ r < i ∧ worked.getD r false = false)) acc ∧
      acc.2.2.2 + remCountG N worked i = numCols - 1)
    (fun i (acc : List Row × Row × List Nat × Nat) =>
      let (T, cost, base, ai) := acc
      if worked.getD i false then acc
      else (T.set i ((T.getD i []).set ai 1), cost.set ai (-1), base.set i ai, ai + 1))
    (N - oldRows) oldRows acc0
    ⟨artLoop_congr f1 (fun r => by
        constructor
        · rintro (h | h)
          · exact h.elim
          · exact Or.inl h
        · rintro (h | ⟨h1, h2, _⟩)
          · exact Or.inr h
          · omega), by rw [f2]; exact hcount'⟩
    (by
      intro i hoi hi acc ⟨inv, cnt⟩
      have hi : i < N := by omega
      obtain ⟨T, cst, bs, ai⟩ := acc
      simp only at cnt ⊢
      have hrem := remCountG_step N worked i hi
      by_cases hw : worked.getD i false = true
      · simp only [hw, if_true]
        rw [hw] at hrem
        simp only [if_true, Nat.zero_add] at hrem
        refine ⟨artLoop_congr inv (fun r => ?_), by rw [← hrem]; exact cnt⟩
        constructor
        · rintro (h | ⟨h1, h2, h3⟩)
          · exact Or.inl h
          · exact Or.inr ⟨h1, by omega, h3⟩
        · rintro (h | ⟨h1, h2, h3⟩)
          · exact Or.inl h
          · have : r ≠ i := by intro h; rw [h, hw] at h3; cases h3
            exact Or.inr ⟨h1, by omega, h3⟩
      · have hw' : worked.getD i false = false := by simpa using hw
        simp only [hw', Bool.false_eq_true, if_false]
        rw [hw'] at hrem
        simp only [Bool.false_eq_true, if_false] at hrem
        have hstep := artLoop_step hzero T cst bs ai inv i hi (by
          rintro (h | ⟨_, h2, _⟩)
          · have := hunf i h; omega
          · omega) (by omega)
        refine ⟨artLoop_congr hstep (fun r => ?_), by omega⟩
        constructor
        · rintro ((h | ⟨h1, h2, h3⟩) | h)
          · exact Or.inl h
          · exact Or.inr ⟨h1, by omega, h3⟩
          · exact Or.inr ⟨by omega, by omega, by rw [h]; exact hw'⟩
        · rintro (h | ⟨h1, h2, h3⟩)
          · exact Or.inl (Or.inl h)
          · by_cases hri : r = i
            · exact Or.inr hri
            · exact Or.inl (Or.inr ⟨h1, by omega, h3⟩))
  rw [show oldRows + (N - oldRows) = N by omega] at key
  obtain ⟨⟨k1, k2, k3, k5, k6, k7, k8, k9, k10⟩, k4⟩ := key
  rw [remCountG_end, Nat.add_zero] at k4
  refine ⟨k1, k2, k3, k4, k6, fun r hr hw => ?_, fun r hr hw => ?_, fun r r' hr hr' hne hw => ?_, fun j => ?_⟩
  · have hS : r ∈ unf ∨ (oldRows ≤ r ∧ r < N ∧ worked.getD r false = false) := by
      rcases hw with h | ⟨h1, h2⟩
      · exact Or.inl h
      · exact Or.inr ⟨h1, hr, h2⟩
    obtain ⟨b1, b2, b3, b4⟩ := k7 r hr hS
    exact ⟨b1, lt_of_lt_of_eq b2 k4, b3, b4⟩
  · apply k8 r hr
    rintro (h | ⟨h1, _, h3⟩)
    · exact hw (Or.inl h)
    · exact hw (Or.inr ⟨h1, h3⟩)
  · have hS : r ∈ unf ∨ (oldRows ≤ r ∧ r < N ∧ worked.getD r false = false) := by
      rcases hw with h | ⟨h1, h2⟩
      · exact Or.inl h
      · exact Or.inr ⟨h1, hr, h2⟩
    exact k9 r r' hr hr' hne hS
  · rw [k10 j, k4]

/-- the loop on an instance with one re-merge-unfeasible old row and one new row not worked out -/
example : ppcArtificials [0] 1 2 [false, false] [[-1, 0, 0, 0], [-2, 0, 0, 0]] (zeros 4) [0, 0] 1 =
    ([[-1, 1, 0, 0], [-2, 0, 1, 0]], [0, -1, -1, 0], [1, 2], 3) := by decide

/-- the hypotheses of `ArtSpecG` are satisfiable on that instance -/
example : ArtOutG 1 2 4 1 [0] [false, false] [[-1, 0, 0, 0], [-2, 0, 0, 0]] [0, 0]
    (ppcArtificials [0] 1 2 [false, false] [[-1, 0, 0, 0], [-2, 0, 0, 0]] (zeros 4) [0, 0] 1) := by
  refine artSpecG 1 2 4 1 [0] [false, false] [[-1, 0, 0, 0], [-2, 0, 0, 0]] [0, 0] (by omega) rfl rfl ?_ ?_ ?_
    (by simp) (by decide) (by omega)
  · intro r hr
    rcases r with _ | _ | r
    · rfl
    · rfl
    · omega
  · intro r hr col hc
    have hcol : ∀ l : List Int, (∀ k, l.getD k 0 = 0) → ∀ a : Int, ((a :: l).getD col 0 = 0) := by
      intro l hl a
      obtain ⟨c, rfl⟩ : ∃ c, col = c + 1 := ⟨col - 1, by omega⟩
      simpa using hl c
    have hz : ∀ k, ([0, 0, 0] : List Int).getD k 0 = 0 := by
      intro k
      rcases k with _ | _ | _ | k <;> simp
    rcases r with _ | _ | r
    · exact hcol _ hz _
    · exact hcol _ hz _
    · omega
  · intro r hr
    simp at hr; omega

/-! ### uniqueness of the basic solution -/

/-- a solution of a canonical tableau with `y 0 = 1` that vanishes on every non-basic column `≥ 1` is the basic
    solution -/
theorem bsol_unique {T : List Row} {base : List Nat} {n : Nat} (hC : CanonTB T base n) (y : Val) (h0 : y 0 = 1)
    (hs : Sol T y) (hnb : ∀ j, 1 ≤ j → (∀ i, i < T.length → base.getD i 0 ≠ j) → y j = 0) :
    ∀ j, y j = bsol T base j := by
  intro j
  unfold bsol
  by_cases hj0 : j = 0
  · rw [if_pos hj0, hj0, h0]
  rw [if_neg hj0]
  cases hro : rowOf base j with
  | none =>
    simp only
    exact hnb j (by omega) (fun i hi => rowOf_none hro i (by rw [hC.lenB]; exact hi))
  | some i =>
    simp only
    obtain ⟨hi, hb⟩ := rowOf_some hro
    rw [hC.lenB] at hi
    have hrow := hs i hi
    unfold rowVal at hrow
    set r := T.getD i [] with hr
    have hrb : r.get j ≠ 0 := by have := hC.basicNZ i hi; rwa [hb] at this
    have key := dot_update r (y.update 0 0) j 0
    rw [dot_update r y 0 0, hrow] at key
    have hz : dot r ((y.update 0 0).update j 0) = 0 := by
      apply dot_eq_zero_of_support
      intro c
      by_cases hc0 : c = 0
      · right; simp [Val.update, hc0]
      by_cases hcj : c = j
      · right; simp [Val.update, hcj]
      simp only [Val.update, hc0, hcj, if_false]
      cases hrc : rowOf base c with
      | none =>
        right
        exact hnb c (by omega) (fun k hk => rowOf_none hrc k (by rw [hC.lenB]; exact hk))
      | some k =>
        left
        obtain ⟨hk, hkc⟩ := rowOf_some hrc
        rw [hC.lenB] at hk
        have hki : k ≠ i := by
          intro h; rw [h, hb] at hkc; exact hcj hkc.symm
        have := hC.basicCol k i hk hi hki
        rw [hkc] at this
        exact this
    rw [hz, h0] at key
    have hyj : (y.update 0 0) j = y j := by simp only [Val.update]; rw [if_neg hj0]
    rw [hyj] at key
    have hrbq : ((r.get j : Int) : Rat) ≠ 0 := by exact_mod_cast hrb
    have e0 : ((r.getD 0 0 : Int) : Rat) = ((r.get 0 : Int) : Rat) := rfl
    have e2 : ((r.getD j 0 : Int) : Rat) = ((r.get j : Int) : Rat) := rfl
    rw [e0, e2] at key
    field_simp
    linarith

end PPLV.Solver.Pend
