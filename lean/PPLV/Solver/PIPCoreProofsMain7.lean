import PPLV.Solver.PIPCoreProofsMain6
import Mathlib.Tactic.IntervalCases
/-!
# C07 stage 2 — end-to-end, part 7: the hypotheses are satisfiable; the bottom direction fails

* `ccClassical` is an oracle that obeys `CCContract` (classical, not computable): the contract is
  satisfiable, so `solve_sound` is not vacuous; `exRootX` is a concrete fresh root on which the solver runs
  to a solution node without consulting the oracle.
* `kfRoot` is the root tableau of the witness of open finding KF-C07-12 (harness `c07_core --seed 3
  --first 57`): with `PIVOT_ROW_STRATEGY_MAX_COLUMN` and the MODELLED `compatibility_check` as oracle the
  model returns — exactly like the real library — a tree that is bottom at `(D, E) = (1, 0)` although
  `(A, B, C) = (0, 0, 3)` is feasible there.
-/
namespace PPLV.PIPCore

/-! ### an oracle that obeys the contract -/

open Classical in
noncomputable def ccClassical (m : Mat) : Option Bool :=
  match m with
  | [] => some true
  | r :: _ => some (decide (∃ q, ParamVec r.length q ∧ CtxSat m q))

theorem ccClassical_contract : CCContract ccClassical := by
  intro m n b hm hn h
  cases m with
  | nil =>
    simp only [ccClassical] at h
    injection h with h
    subst h
    refine ⟨fun _ => ?_, fun _ => rfl⟩
    refine ⟨1 :: List.replicate (n - 1) 0, ⟨by simp; omega, rfl, ?_⟩, fun r hr => by simp at hr⟩
    intro x hx
    rcases List.mem_cons.mp hx with rfl | hx
    · decide
    · rw [List.eq_of_mem_replicate hx]
  | cons r rs =>
    simp only [ccClassical] at h
    injection h with h
    have hr : r.length = n := hm r (List.mem_cons_self ..)
    rw [hr] at h
    subst h
    simp

/-! ### a run that needs no oracle: `x ≥ 1`, no parameter -/

def exRootX : SolNode :=
  { tab := { s := [[1]], t := [[-1]], den := 1, ns := 1, nt := 1 }
    basis := [true, false], mapping := [0, 0], varRow := [1], varColumn := [0]
    sign := [.negative], big := none, arts := [], cons := [] }

theorem exRootX_ok : RootOK exRootX [] where
  wf := { rows_eq := rfl, s_cols := by decide, t_cols := by decide, den_pos := by decide, vr_len := rfl
          vc_len := rfl, sign_len := rfl, map_len := rfl, basis_len := rfl
          vr_ok := by intro i hi; have hi' : i < 1 := hi; interval_cases i; decide
          vc_ok := by intro j hj; have hj' : j < 1 := hj; interval_cases j; decide
          map_ok := by intro k hk; have hk' : k < 2 := hk; interval_cases k <;> decide }
  den_one := rfl
  fresh := by intro k hk; have hk' : k < 1 := hk; interval_cases k; decide
  big := rfl
  arts := rfl
  cons := rfl
  nt_pos := by decide
  ctx_len := by intro r hr; simp at hr
  sign := by
    intro k
    by_cases hk : k = 0
    · subst hk; right; decide
    · left
      unfold signGet
      cases k with
      | zero => exact absurd rfl hk
      | succ k => rfl

/-- whatever the oracle: the model pivots once and returns the solution node `x = 1` -/
theorem exRootX_run (cc : Mat → Option Bool) :
    ∃ r, solveAsWritten cc {} false 5 exRootX [] = .done r ∧ (resToTree r).eval [] = .point [1] :=
  ⟨_, rfl, by decide⟩

/-! ### the witness of KF-C07-12 -/

def kfTab : Tableau :=
  ⟨[[4,0,1],[-4,-2,-3],[0,0,1],[0,2,2],[0,1,2]], [[-3,0,1],[6,3,-1],[-3,0,-1],[-3,-3,0],[3,0,-2]], 1, 3, 3⟩

/-- root of `{4A + C + E = 3, C - E ≥ 3, 2B + 2C - 3D = 3, B + 2C - 2E + 3 ≥ 0}`, parameters `D, E`, as
    journalled from the real `update_tableau` (row 1 is the shared row `-(f₁ + f₂) ≥ 0` of the two equalities) -/
def kfRoot : SolNode :=
  { tab := kfTab
    basis := [true,true,true,false,false,false,false,false]
    mapping := [0,1,2,0,1,2,3,4]
    varRow := [3,4,5,6,7]
    varColumn := [0,1,2]
    sign := [.mixed,.mixed,.negative,.negative,.mixed]
    big := none, arts := [], cons := [] }

def kfTree : PPLV.PIP.Tree :=
  match solveAsWritten (ccModel 40) { cut := 0, piv := 1 } false 40 kfRoot [] with
  | .done r => resToTree r
  | .fuel => .dec [] [] .bottom .bottom

def kfVal : Nat → Int := fun k => [0, 0, 3, 0, 0, 0, 0, 9].getD k 0

theorem kf_feasible : Feasible kfRoot kfVal [1, 1, 0] := by
  refine ⟨?_, ?_⟩
  · intro i hi
    have hi' : i < 5 := hi
    interval_cases i <;> (unfold RowHolds; decide)
  · intro k hk
    have hk' : k < 8 := hk
    interval_cases k <;> decide

set_option maxRecDepth 100000 in
theorem kf_bottom : kfTree.eval [1, 0] = .bottom := by decide +kernel

end PPLV.PIPCore
