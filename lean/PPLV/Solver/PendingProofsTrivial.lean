import PPLV.Solver.PendingProofsE2E3

/-!
# C06 stage 3 — the branch of `process_pending_constraints` without tableau rows (:982–:999)

Every constraint is a tautology or a sign restriction of an unsplit variable: the solution set is
`{x | x_v ≥ 0 for the unsplit v}`; `is_unbounded_obj_function` decides OPTIMIZED (at the origin) / UNBOUNDED.
-/
namespace PPLV.Solver.Pend
open PPLV.Lin PPLV.Solver PPLV.Solver.Tab

theorem dot_unit_val (l : List Int) (i : Nat) (a : Rat) :
    dot l (Val.zero.update i a) = ((l.getD i 0 : Int) : Rat) * a := by
  rw [dot_update, dot_zero]; simp [Val.zero]

/-- the valuation with `t` in one column -/
def oneCol (col : Nat) (t : Rat) : Val := fun j => if j = 0 then 1 else if j = col then t else 0

namespace InsCtx
variable (C : InsCtx)

/-- columns of different variables are different -/
theorem cols_distinct {u v : Nat} (hu : u < C.n) (hv : v < C.n) (huv : u ≠ v) :
    (C.M.getD (u+1) (0, 0)).1 ≠ (C.M.getD (v+1) (0, 0)).1 ∧
    (C.M.getD (u+1) (0, 0)).1 ≠ hiCol (C.M.getD (v+1) (0, 0)) ∧
    hiCol (C.M.getD (u+1) (0, 0)) ≠ (C.M.getD (v+1) (0, 0)).1 ∧
    hiCol (C.M.getD (u+1) (0, 0)) ≠ hiCol (C.M.getD (v+1) (0, 0)) := by
  obtain ⟨a1, a2, -, -⟩ := C.hM.cols u hu
  obtain ⟨b1, b2, -, -⟩ := C.hM.cols v hv
  have hle : ∀ w, w < C.n → (C.M.getD (w+1) (0, 0)).1 ≤ hiCol (C.M.getD (w+1) (0, 0)) := by
    intro w hw
    obtain ⟨-, c2, -, -⟩ := C.hM.cols w hw
    unfold hiCol; split <;> omega
  rcases Nat.lt_or_gt_of_ne huv with h | h
  · have := C.hM.ord u v h hv
    have := hle u hu; have := hle v hv
    refine ⟨by omega, by omega, by omega, by omega⟩
  · have := C.hM.ord v u h hu
    have := hle u hu; have := hle v hv
    refine ⟨by omega, by omega, by omega, by omega⟩

/-- projection of the valuation with `t` in the first (`neg = false`) or second column of variable `i` -/
theorem proj_oneCol (i : Nat) (hi : i < C.n) (neg : Bool) (hneg : neg = true → (C.M.getD (i+1) (0, 0)).2 ≠ 0) (t : Rat) :
    ∀ u, u < C.n → proj C.M (oneCol (if neg then (C.M.getD (i+1) (0, 0)).2 else (C.M.getD (i+1) (0, 0)).1) t) u =
      if u = i then (if neg then -t else t) else 0 := by
  intro u hu
  obtain ⟨a1, a2, -, -⟩ := C.hM.cols u hu
  obtain ⟨b1, b2, -, -⟩ := C.hM.cols i hi
  have hhi : ∀ w, (C.M.getD (w+1) (0, 0)).2 ≠ 0 → hiCol (C.M.getD (w+1) (0, 0)) = (C.M.getD (w+1) (0, 0)).2 := by
    intro w hw; unfold hiCol; rw [if_neg hw]
  unfold proj oneCol
  simp only
  by_cases hui : u = i
  · subst hui
    rw [if_pos rfl]
    cases neg
    · simp only [Bool.false_eq_true, if_false, if_true]
      have h10 : ¬ (C.M.getD (u+1) (0, 0)).1 = 0 := by omega
      simp only [h10, if_false, if_true]
      by_cases hm : (C.M.getD (u+1) (0, 0)).2 = 0
      · have hb : ((C.M.getD (u+1) (0, 0)).2 != 0) = false := by rw [hm]; rfl
        rw [hb]; simp only [Bool.false_eq_true, if_false, sub_zero]
      · have hb : ((C.M.getD (u+1) (0, 0)).2 != 0) = true := bne_iff_ne.mpr hm
        rw [hb]; simp only [if_true]
        rw [if_neg hm, if_neg (by rcases a2 with h | h <;> omega)]; simp only [sub_zero]
    · have hm := hneg rfl
      have hb : ((C.M.getD (u+1) (0, 0)).2 != 0) = true := bne_iff_ne.mpr hm
      have h10 : ¬ (C.M.getD (u+1) (0, 0)).1 = 0 := by omega
      have h12 : ¬ (C.M.getD (u+1) (0, 0)).1 = (C.M.getD (u+1) (0, 0)).2 := by rcases a2 with h | h <;> omega
      simp only [if_true, hb, h10, h12, hm, if_false]
      ring
  · rw [if_neg hui]
    obtain ⟨d1, d2, d3, d4⟩ := C.cols_distinct hu hi hui
    have hcol : (if neg = true then (C.M.getD (i+1) (0, 0)).2 else (C.M.getD (i+1) (0, 0)).1) =
        (C.M.getD (i+1) (0, 0)).1 ∨
        ((C.M.getD (i+1) (0, 0)).2 ≠ 0 ∧
          (if neg = true then (C.M.getD (i+1) (0, 0)).2 else (C.M.getD (i+1) (0, 0)).1) = hiCol (C.M.getD (i+1) (0, 0))) := by
      cases neg
      · left; rfl
      · right; exact ⟨hneg rfl, by simp only [if_true]; exact (hhi i (hneg rfl)).symm⟩
    have hne1 : (C.M.getD (u+1) (0, 0)).1 ≠
        (if neg = true then (C.M.getD (i+1) (0, 0)).2 else (C.M.getD (i+1) (0, 0)).1) := by
      rcases hcol with h | ⟨-, h⟩ <;> rw [h] <;> assumption
    rw [if_neg (by omega), if_neg hne1]
    by_cases hm : (C.M.getD (u+1) (0, 0)).2 = 0
    · have : ((C.M.getD (u+1) (0, 0)).2 != 0) = false := by rw [hm]; rfl
      rw [this]; simp
    · have : ((C.M.getD (u+1) (0, 0)).2 != 0) = true := bne_iff_ne.mpr hm
      rw [this]; simp only [if_true]
      have hne2 : (C.M.getD (u+1) (0, 0)).2 ≠
          (if neg = true then (C.M.getD (i+1) (0, 0)).2 else (C.M.getD (i+1) (0, 0)).1) := by
        rw [← hhi u hm]
        rcases hcol with h | ⟨-, h⟩ <;> rw [h] <;> assumption
      rw [if_neg (by omega), if_neg hne2]; simp

/-- **the branch without tableau rows** -/
theorem trivial_branch (H1 : ∀ c ∈ C.pend, (classify c).1 = .m7 → C.nn.getD (classify c).2 false = true)
    (H2 : ∀ u, C.nn.getD u false = true → ∃ c ∈ C.pend, forcesNonneg (classify c).1 = true ∧ (classify c).2 = u)
    (hT : C.T2 (zeros C.numCols) C.fin.base = []) (obj : LinExpr) (mx : Bool) (hobj : obj.coeffs.length ≤ C.n) :
    csSem C.pend Val.zero ∧
    (isUnboundedObjFunction obj C.M mx = false →
      ∀ x, csSem C.pend x → dot (obj.coeffs.map fun a => if mx then a else -a) x ≤ 0) ∧
    (isUnboundedObjFunction obj C.M mx = true →
      ∀ B : Rat, ∃ x, csSem C.pend x ∧ B < dot (obj.coeffs.map fun a => if mx then a else -a) x) := by
  obtain ⟨core1, core2⟩ := C.setup_core (zeros C.numCols) C.fin.base H1 H2
  have hSL : 1 + C.j ≤ C.SL := by unfold SL V; omega
  have hsol : ∀ y, Sol (C.T2 (zeros C.numCols) C.fin.base) y := by intro y i hi; rw [hT] at hi; simp at hi
  -- solutions from one-column valuations
  have one : ∀ i, i < C.n → ∀ neg : Bool, (neg = true → (C.M.getD (i+1) (0, 0)).2 ≠ 0) → ∀ t : Rat, 0 ≤ t →
      csSem C.pend (fun u => if u = i then (if neg then -t else t) else 0) := by
    intro i hi neg hneg t ht
    obtain ⟨b1, b2, -, b4⟩ := C.hM.cols i hi
    set col := (if neg then (C.M.getD (i+1) (0, 0)).2 else (C.M.getD (i+1) (0, 0)).1) with hcol
    have hcolpos : 1 ≤ col ∧ col < C.SL := by
      rw [hcol]
      cases neg
      · simp only [Bool.false_eq_true, if_false]; unfold hiCol at b4; split at b4 <;> omega
      · simp only [if_true]
        have hm := hneg rfl
        unfold hiCol at b4; rw [if_neg hm] at b4; omega
    have := core1 (oneCol col t) (by simp [oneCol]) (fun j hj => by
        unfold oneCol; rw [if_neg (by omega)]; split
        · exact ht
        · exact le_refl _) (fun j h1 _ => by
        unfold oneCol; rw [if_neg (by omega), if_neg (by omega)]) (hsol _)
    exact (csSem_congr C.pend C.n C.hlen _ _ (C.proj_oneCol i hi neg hneg t)).mp this
  have hzero : csSem C.pend Val.zero := by
    by_cases hn : 0 < C.n
    · have := one 0 hn false (fun h => by cases h) 0 (le_refl _)
      exact (csSem_congr C.pend C.n C.hlen _ _ (fun u _ => by simp [Val.zero])).mp this
    · -- no variable: every valuation agrees with the origin on the variables
      have := core1 (oneCol 0 0) (by simp [oneCol]) (fun j hj => by unfold oneCol; rw [if_neg (by omega)]; split <;> exact le_refl _)
        (fun j h1 _ => by unfold oneCol; rw [if_neg (by omega)]; split <;> rfl) (hsol _)
      exact (csSem_congr C.pend C.n C.hlen _ _ (fun u hu => by omega)).mp this
  set sg := obj.coeffs.map (fun a => if mx then a else -a) with hsg
  have hsgget : ∀ i, sg.getD i 0 = if mx then obj.coeffs.getD i 0 else - obj.coeffs.getD i 0 := by
    intro i
    rw [hsg, List.getD_eq_getElem?_getD, List.getElem?_map, List.getD_eq_getElem?_getD]
    cases obj.coeffs[i]? with
    | none => cases mx <;> simp
    | some a => rfl
  refine ⟨hzero, fun hunb x hx => ?_, fun hunb B => ?_⟩
  · -- every term of the signed objective is ≤ 0
    obtain ⟨y, y1, y2, y3, -, y5⟩ := core2 x hx
    apply (dot_nonpos_terms sg x (fun i => ?_)).1
    by_cases hi : i < obj.coeffs.length
    · have hin : i < C.n := by omega
      have hall := List.any_eq_false.mp hunb i (List.mem_range.mpr hi)
      simp only [Bool.and_eq_true, bne_iff_ne, ne_eq, Bool.or_eq_true, not_and, not_or] at hall
      by_cases hc : obj.coeffs.getD i 0 = 0
      · rw [hsgget, hc]; cases mx <;> simp
      · obtain ⟨hm2, hsign⟩ := hall hc
        have hm2' : (C.M.getD (i+1) (0, 0)).2 = 0 := by simpa using hm2
        -- unsplit: x_i ≥ 0
        have hxi : 0 ≤ x i := by
          rw [← y5 i hin]
          unfold proj
          have : ((C.M.getD (i+1) (0, 0)).2 != 0) = false := by rw [hm2']; rfl
          simp only [this, Bool.false_eq_true, if_false, sub_zero]
          exact y2 _ (C.hM.cols i hin).1
        rw [hsgget]
        cases mx
        · simp only [Bool.false_eq_true, if_false, decide_eq_true_eq, not_lt] at hsign ⊢
          have : ((-(obj.coeffs.getD i 0) : Int) : Rat) ≤ 0 := by exact_mod_cast (by omega : -(obj.coeffs.getD i 0) ≤ 0)
          exact mul_nonpos_of_nonpos_of_nonneg this hxi
        · simp only [if_true, decide_eq_true_eq, not_lt] at hsign ⊢
          have : ((obj.coeffs.getD i 0 : Int) : Rat) ≤ 0 := by exact_mod_cast hsign
          exact mul_nonpos_of_nonpos_of_nonneg this hxi
    · have : sg.getD i 0 = 0 := by
        rw [hsgget, List.getD_eq_getElem?_getD, List.getElem?_eq_none (by omega)]; cases mx <;> simp
      rw [this]; simp
  · obtain ⟨i, hi, hcond⟩ := List.any_eq_true.mp hunb
    have hi' := List.mem_range.mp hi
    have hin : i < C.n := by omega
    simp only [Bool.and_eq_true, bne_iff_ne, ne_eq, Bool.or_eq_true] at hcond
    obtain ⟨hc, hdir⟩ := hcond
    -- direction: + along the first column if the sign is favourable, otherwise − along the second column
    have hsgi : sg.getD i 0 ≠ 0 := by
      rw [hsgget]
      cases mx
      · simp only [Bool.false_eq_true, if_false]; omega
      · simp only [if_true]; exact hc
    by_cases hfav : 0 < sg.getD i 0
    · set t : Rat := max 0 (B / ((sg.getD i 0 : Int) : Rat) + 1) with ht
      have hfq : (0 : Rat) < ((sg.getD i 0 : Int) : Rat) := by exact_mod_cast hfav
      refine ⟨_, one i hin false (fun h => by cases h) t (le_max_left _ _), ?_⟩
      have hval : (fun u => if u = i then (if false = true then -t else t) else (0 : Rat)) = Val.zero.update i t := by
        funext u; simp [Val.update, Val.zero]
      rw [hval, dot_unit_val]
      have h2 : B / ((sg.getD i 0 : Int) : Rat) + 1 ≤ t := le_max_right _ _
      have h3 := mul_le_mul_of_nonneg_left h2 (le_of_lt hfq)
      have h4 : ((sg.getD i 0 : Int) : Rat) * (B / ((sg.getD i 0 : Int) : Rat)) = B := by field_simp
      nlinarith
    · have hneg : sg.getD i 0 < 0 := by omega
      -- the sign is not favourable, so the variable is split
      have hsplit : (C.M.getD (i+1) (0, 0)).2 ≠ 0 := by
        rcases hdir with h | h
        · simpa using h
        · exfalso
          rw [hsgget] at hneg
          cases mx
          · simp only [Bool.false_eq_true, if_false, decide_eq_true_eq] at h hneg; omega
          · simp only [if_true, decide_eq_true_eq] at h hneg; omega
      have hnq : ((sg.getD i 0 : Int) : Rat) < 0 := by exact_mod_cast hneg
      set t : Rat := max 0 (B / (-((sg.getD i 0 : Int) : Rat)) + 1) with ht
      refine ⟨_, one i hin true (fun _ => hsplit) t (le_max_left _ _), ?_⟩
      have hval : (fun u => if u = i then (if true = true then -t else t) else (0 : Rat)) = Val.zero.update i (-t) := by
        funext u; simp [Val.update, Val.zero]
      rw [hval, dot_unit_val]
      have h2 : B / (-((sg.getD i 0 : Int) : Rat)) + 1 ≤ t := le_max_right _ _
      have hpos : (0 : Rat) < -((sg.getD i 0 : Int) : Rat) := by linarith
      have h3 := mul_le_mul_of_nonneg_left h2 (le_of_lt hpos)
      have h4 : -((sg.getD i 0 : Int) : Rat) * (B / (-((sg.getD i 0 : Int) : Rat))) = B := by field_simp
      nlinarith

end InsCtx

end PPLV.Solver.Pend
