import PPLV.Solver.PendingProofsIncr

/-!
# C06 stage 3 — the incremental call of `process_pending_constraints`: decomposition (statements)

The proof that the set-up of an incremental call hands a canonical feasible tableau to the first phase is split
into packages proved against the predicates of this file:

* `ReadyS`     — the invariant of a solved state (`Ready` + the completeness witness can be chosen with the negative
                 component 0 wherever the variable is ≥ 0: what `merge_split_variable` needs);
* `OldOK`      — the old rows after re-merging: canonical and feasible except for the rows `unf` whose basic variable
                 was a removed negative component (`base = 0` there);
* `OldGood`    — their non-negative solutions are the encodings of the points satisfying the processed constraints
                 and the sign restrictions that caused the re-merging;
* `MergeSpec`  — package A: `ppcMerge` turns a `ReadyS` state into `OldOK` + `OldGood` (+ the basic solution is kept
                 when no row became unfeasible);
* `ArtOutG`, `ArtSpecG` — package C: the artificial-column loop with re-merge-unfeasible rows and a row offset.
-/
namespace PPLV.Solver.Pend
open PPLV.Lin PPLV.Solver PPLV.Solver.Tab

/-- the negative component of a split variable is 0 in `y` wherever the variable is non-negative in `x` -/
def NegZero (M : List (Nat × Nat)) (n : Nat) (x y : Val) : Prop :=
  ∀ v, v < n → (M.getD (v+1) (0, 0)).2 ≠ 0 → 0 ≤ x v → y (M.getD (v+1) (0, 0)).2 = 0

/-- the invariant of a state whose constraints `cs` (all of them, in `n` variables) are processed -/
structure ReadyS (cs : List ICon) (n : Nat) (s : LPState) : Prop where
  ready : Ready cs n s
  ncols : s.numCols = s.working_cost.length
  completeS : ∀ x, csSem cs x → ∃ y, Pos0 s.working_cost.length y ∧ Sol s.tableau y ∧
    (∀ i, i < n → proj s.mapping y i = x i) ∧ NegZero s.mapping n x y

/-- the old rows after re-merging -/
structure OldOK (T : List Row) (base : List Nat) (nc : Nat) (unf : List Nat) : Prop where
  lenB : base.length = T.length
  nc2 : 2 ≤ nc
  rowLen : ∀ i, i < T.length → (T.getD i []).length = nc
  lastZero : ∀ i, i < T.length → (T.getD i []).get (nc - 1) = 0
  unfLt : ∀ r, r ∈ unf → r < T.length
  unfNodup : unf.Nodup
  unfBase : ∀ i, i < T.length → (base.getD i 0 = 0 ↔ i ∈ unf)
  baseRange : ∀ i, i < T.length → base.getD i 0 ≠ 0 → 1 ≤ base.getD i 0 ∧ base.getD i 0 < nc - 1
  basicNZ : ∀ i, i < T.length → base.getD i 0 ≠ 0 → (T.getD i []).get (base.getD i 0) ≠ 0
  basicCol : ∀ i j, i < T.length → j < T.length → i ≠ j → base.getD i 0 ≠ 0 →
    (T.getD j []).get (base.getD i 0) = 0
  feas : ∀ i, i < T.length → base.getD i 0 ≠ 0 →
    0 ≤ -(((T.getD i []).get 0 : Int) : Rat) / (((T.getD i []).get (base.getD i 0) : Int) : Rat)

/-- the solutions of the old rows after re-merging the variables flagged in `rm` -/
structure OldGood (cs0 : List ICon) (n : Nat) (rm : List Bool) (T : List Row) (M : List (Nat × Nat)) (nc : Nat) :
    Prop where
  map : ∃ nn j, MapOK M nn n j ∧ 1 + j ≤ nc - 1
  unsplit : ∀ v, v < n → rm.getD v false = true → (M.getD (v+1) (0, 0)).2 = 0
  sound : ∀ y, Pos0 nc y → Sol T y → csSem cs0 (proj M y)
  complete : ∀ x, csSem cs0 x → (∀ v, v < n → rm.getD v false = true → 0 ≤ x v) →
    ∃ y, Pos0 nc y ∧ Sol T y ∧ (∀ i, i < n → proj M y i = x i) ∧ NegZero M n x y

/-- **package A** (`merge_split_variable` :428, loop :734–:745): from a solved state, re-merging the split variables
    flagged in `rm` gives `OldOK` / `OldGood`; a variable keeps its split status unless flagged; and when no row
    became unfeasible the projected basic solution is unchanged -/
def MergeSpec : Prop :=
  ∀ (cs0 : List ICon) (n : Nat) (s : LPState) (rm : List Bool),
    ReadyS cs0 n s → s.internal_space_dim = n → rm.length = n →
    (∀ v, v < n → rm.getD v false = true → (s.mapping.getD (v+1) (0, 0)).2 ≠ 0) →
    OldOK (ppcMerge s rm).1.tableau (ppcMerge s rm).1.base (ppcMerge s rm).1.numCols (ppcMerge s rm).2 ∧
    OldGood cs0 n rm (ppcMerge s rm).1.tableau (ppcMerge s rm).1.mapping (ppcMerge s rm).1.numCols ∧
    (∀ v, v < n → rm.getD v false = false →
      (((ppcMerge s rm).1.mapping.getD (v+1) (0, 0)).2 = 0 ↔ (s.mapping.getD (v+1) (0, 0)).2 = 0)) ∧
    ((ppcMerge s rm).2 = [] → ∀ i, i < n →
      proj (ppcMerge s rm).1.mapping (bsol (ppcMerge s rm).1.tableau (ppcMerge s rm).1.base) i =
        proj s.mapping (bsol s.tableau s.base) i) ∧
    (ppcMerge s rm).1.internal_space_dim = s.internal_space_dim ∧
    (ppcMerge s rm).1.first_pending = s.first_pending

/-- the output of the artificial-column loop (:918–:949) in general: `T1`, `base0` = tableau and base after insertion
    and sign normalisation, `unf` = rows made unfeasible by re-merging (they get the first artificial columns, in
    order), then the new rows `≥ oldRows` that are not worked out -/
structure ArtOutG (oldRows N numCols SL : Nat) (unf : List Nat) (worked : List Bool) (T1 : List Row) (base0 : List Nat)
    (out : List Row × Row × List Nat × Nat) : Prop where
  lenT : out.1.length = N
  lenB : out.2.2.1.length = N
  lenC : out.2.1.length = numCols
  endA : out.2.2.2 = numCols - 1
  rowLen : ∀ r, r < N → (out.1.getD r []).length = numCols
  /-- rows that receive an artificial column -/
  art : ∀ r, r < N → (r ∈ unf ∨ (oldRows ≤ r ∧ worked.getD r false = false)) →
    SL ≤ out.2.2.1.getD r 0 ∧ out.2.2.1.getD r 0 < numCols - 1 ∧
    (out.1.getD r []).get (out.2.2.1.getD r 0) = 1 ∧
    ∀ col, col ≠ out.2.2.1.getD r 0 → (out.1.getD r []).get col = (T1.getD r []).get col
  /-- the other rows are untouched -/
  keep : ∀ r, r < N → ¬ (r ∈ unf ∨ (oldRows ≤ r ∧ worked.getD r false = false)) →
    out.1.getD r [] = T1.getD r [] ∧ out.2.2.1.getD r 0 = base0.getD r 0
  other : ∀ r r', r < N → r' < N → r ≠ r' → (r ∈ unf ∨ (oldRows ≤ r ∧ worked.getD r false = false)) →
    (out.1.getD r' []).get (out.2.2.1.getD r 0) = 0
  cost : ∀ j, out.2.1.getD j 0 = if SL ≤ j ∧ j < numCols - 1 then -1 else 0

/-- **package C**: the loop establishes `ArtOutG` when the number of artificial columns reserved equals the number of
    rows that need one -/
def ArtSpecG : Prop :=
  ∀ (oldRows N numCols SL : Nat) (unf : List Nat) (worked : List Bool) (T1 : List Row) (base0 : List Nat),
    oldRows ≤ N → T1.length = N → base0.length = N → (∀ r, r < N → (T1.getD r []).length = numCols) →
    (∀ r, r < N → ∀ col, SL ≤ col → (T1.getD r []).get col = 0) →
    (∀ r, r ∈ unf → r < oldRows) → unf.Nodup →
    SL + unf.length + ((List.range N).drop oldRows).countP (fun r => !worked.getD r false) = numCols - 1 →
    1 ≤ numCols →
    ArtOutG oldRows N numCols SL unf worked T1 base0
      (ppcArtificials unf oldRows N worked T1 (zeros numCols) base0 SL)

end PPLV.Solver.Pend
