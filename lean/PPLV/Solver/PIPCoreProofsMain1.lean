import PPLV.Solver.PIPCoreProofsDefs
/-!
# C07 stage 2 — end-to-end, part 1: the loop invariant and bookkeeping lemmas
-/
namespace PPLV.PIPCore

/-! ### what depends on which members -/

theorem tabSat_congr {nd nd' : SolNode} (h1 : nd'.tab = nd.tab) (h2 : nd'.varRow = nd.varRow)
    (h3 : nd'.varColumn = nd.varColumn) (v : Nat → Int) (q : List Int) : TabSat nd' v q ↔ TabSat nd v q := by
  unfold TabSat RowHolds
  rw [h1, h2, h3]

theorem feasible_congr {nd nd' : SolNode} (h1 : nd'.tab = nd.tab) (h2 : nd'.varRow = nd.varRow)
    (h3 : nd'.varColumn = nd.varColumn) (h4 : nd'.mapping = nd.mapping) (v : Nat → Int) (q : List Int) :
    Feasible nd' v q ↔ Feasible nd v q := by
  unfold Feasible
  rw [tabSat_congr h1 h2 h3, h4]

theorem isLexMin_of_feasible_iff {nd nd' : SolNode} (hns : nd'.tab.ns = nd.tab.ns) {q q' : List Int}
    (h : ∀ v, Feasible nd' v q' ↔ Feasible nd v q) {x : List Int} : IsLexMin nd' q' x → IsLexMin nd q x := by
  rintro ⟨v, hf, hx, hmin⟩
  refine ⟨v, (h v).mp hf, by rw [← hns]; exact hx, fun w hw => ?_⟩
  rw [← hns]
  exact hmin w ((h w).mpr hw)

theorem isLexMin_congr {nd nd' : SolNode} (h1 : nd'.tab = nd.tab) (h2 : nd'.varRow = nd.varRow)
    (h3 : nd'.varColumn = nd.varColumn) (h4 : nd'.mapping = nd.mapping) {q : List Int} {x : List Int} :
    IsLexMin nd' q x → IsLexMin nd q x :=
  isLexMin_of_feasible_iff (by rw [h1]) (fun v => feasible_congr h1 h2 h3 h4 v q)

theorem tabSatQ_congr {nd nd' : SolNode} (h1 : nd'.tab = nd.tab) (h2 : nd'.varRow = nd.varRow)
    (h3 : nd'.varColumn = nd.varColumn) (v : Nat → ℚ) (q : List Int) : TabSatQ nd' v q ↔ TabSatQ nd v q := by
  unfold TabSatQ RowHoldsQ
  rw [h1, h2, h3]

theorem intInv_congr {nd nd' : SolNode} (h1 : nd'.tab = nd.tab) (h2 : nd'.varRow = nd.varRow)
    (h3 : nd'.varColumn = nd.varColumn) (h4 : nd'.mapping = nd.mapping) {q : List Int} :
    IntInv nd q → IntInv nd' q := by
  intro h v hv hx k hk
  rw [h4] at hk
  exact h v ((tabSatQ_congr h1 h2 h3 v q).mp hv) (by rw [← h1]; exact hx) k hk

theorem wf_congr {nd nd' : SolNode} (h1 : nd'.tab = nd.tab) (h2 : nd'.varRow = nd.varRow)
    (h3 : nd'.varColumn = nd.varColumn) (h4 : nd'.mapping = nd.mapping) (h5 : nd'.basis = nd.basis)
    (h6 : nd'.sign.length = nd.sign.length) : WF nd → WF nd' := by
  intro h
  exact { rows_eq := by rw [h1]; exact h.rows_eq
          s_cols := by rw [h1]; exact h.s_cols
          t_cols := by rw [h1]; exact h.t_cols
          den_pos := by rw [h1]; exact h.den_pos
          vr_len := by rw [h1, h2]; exact h.vr_len
          vc_len := by rw [h1, h3]; exact h.vc_len
          sign_len := by rw [h1, h6]; exact h.sign_len
          map_len := by rw [h1, h4]; exact h.map_len
          basis_len := by rw [h4, h5]; exact h.basis_len
          vr_ok := by rw [h1, h2, h4, h5]; exact h.vr_ok
          vc_ok := by rw [h1, h3, h4, h5]; exact h.vc_ok
          map_ok := by rw [h1, h2, h3, h4, h5]; exact h.map_ok }

theorem signAt_congr {nd nd' : SolNode} (h1 : nd'.tab = nd.tab) (h2 : nd'.sign = nd.sign) {q : List Int} :
    SignAt nd q → SignAt nd' q := by
  intro h k
  rw [h1, h2]
  exact h k

/-! ### the members `pivot` does not touch -/

theorem pivot_arts (nd : SolNode) (pi pj : Nat) : (pivot nd pi pj).arts = nd.arts := rfl
theorem pivot_cons (nd : SolNode) (pi pj : Nat) : (pivot nd pi pj).cons = nd.cons := rfl
theorem pivot_big (nd : SolNode) (pi pj : Nat) : (pivot nd pi pj).big = nd.big := rfl

/-! ### the loop invariant

`S` is the set of parameter vectors (for the columns that existed when the node's own artificial parameters
start, `n0` of them) the call is responsible for; `q = extendArts nd.arts qpre` is the vector over all
`nd.tab.nt` columns. -/

structure Inv (S : List Int → Prop) (n0 : Nat) (nd : SolNode) (ctx : Mat) : Prop where
  wf : WF nd
  lex : LexPos nd
  big : nd.big = none
  arts : ArtsWF n0 nd.arts
  nt_eq : n0 + nd.arts.length = nd.tab.nt
  n0_pos : 0 < n0
  ctx_len : ∀ r ∈ ctx, r.length = nd.tab.nt
  cons_len : RowsLe nd.cons nd.tab.nt
  pv : ∀ qpre, S qpre → ParamVec n0 qpre
  pvq : ∀ qpre, S qpre → ParamVec nd.tab.nt (extendArts nd.arts qpre)
  rel : ∀ qpre, S qpre → consHold nd.cons (extendArts nd.arts qpre) = true →
    CtxSat ctx (extendArts nd.arts qpre)
  sgn : ∀ qpre, S qpre → CtxSat ctx (extendArts nd.arts qpre) → SignAt nd (extendArts nd.arts qpre)
  int : ∀ qpre, S qpre → IntInv nd (extendArts nd.arts qpre)

/-! ### `choosePivot` returns a row of the tableau and the code's column for it -/

theorem choosePivot_spec (ctl : Ctl) (nd : SolNode) (sg : List RowSign) :
    ∀ (is : List Nat) (st : Option (Nat × Nat)) (pi pj : Nat),
      (∀ i ∈ is, i < nd.tab.s.length) →
      (∀ a b, st = some (a, b) → a < nd.tab.s.length ∧
        findLexicoMinimalColumn nd.tab.s nd.mapping nd.basis (mrow nd.tab.s a) 0 = some b) →
      choosePivot ctl nd sg is st = some (some (pi, pj)) →
      pi < nd.tab.s.length ∧
        findLexicoMinimalColumn nd.tab.s nd.mapping nd.basis (mrow nd.tab.s pi) 0 = some pj := by
  intro is
  induction is with
  | nil =>
    intro st pi pj _ hst h
    simp only [choosePivot] at h
    exact hst pi pj (by injection h)
  | cons i is ih =>
    intro st pi pj his hst h
    have hi : i < nd.tab.s.length := his i (List.mem_cons_self ..)
    have his' : ∀ k ∈ is, k < nd.tab.s.length := fun k hk => his k (List.mem_cons_of_mem _ hk)
    by_cases hs : signGet sg i ≠ .negative
    · rw [choosePivot, if_pos hs] at h
      exact ih st pi pj his' hst h
    · rw [choosePivot, if_neg hs] at h
      cases hj : findLexicoMinimalColumn nd.tab.s nd.mapping nd.basis (mrow nd.tab.s i) 0 with
      | none => rw [hj] at h; exact absurd h (by simp)
      | some j =>
        rw [hj] at h
        have hnew : ∀ a b, (some (i, j) : Option (Nat × Nat)) = some (a, b) → a < nd.tab.s.length ∧
            findLexicoMinimalColumn nd.tab.s nd.mapping nd.basis (mrow nd.tab.s a) 0 = some b := by
          intro a b hab
          injection hab with hab
          injection hab with ha hb
          subst ha; subst hb
          exact ⟨hi, hj⟩
        have key : ∀ (better : Bool),
            (if better = true then
              (if ctl.piv = 0 then some (some (i, j)) else choosePivot ctl nd sg is (some (i, j)))
            else choosePivot ctl nd sg is st) = some (some (pi, pj)) →
            pi < nd.tab.s.length ∧
              findLexicoMinimalColumn nd.tab.s nd.mapping nd.basis (mrow nd.tab.s pi) 0 = some pj := by
          intro better hb
          cases better with
          | true =>
            simp only [if_true] at hb
            by_cases hp : ctl.piv = 0
            · rw [if_pos hp] at hb
              injection hb with hb
              exact hnew pi pj hb
            · rw [if_neg hp] at hb
              exact ih _ pi pj his' hnew hb
          | false =>
            simp only [Bool.false_eq_true, if_false] at hb
            exact ih st pi pj his' hst hb
        exact key _ h

theorem rangeFrom_lt (a b : Nat) : ∀ i ∈ rangeFrom a b, i < b := by
  intro i hi
  unfold rangeFrom at hi
  rw [List.mem_map] at hi
  obtain ⟨k, hk, rfl⟩ := hi
  rw [List.mem_range] at hk
  omega

end PPLV.PIPCore
