import PPLV.Solver.PIPCoreProofsPivot9
/-!
# C07 stage 2 — the pivot family: headline theorems (namespace `PPLV.PIPCore`)

All auxiliary material lives in `PPLV.PIPCore.Piv` (files `PIPCoreProofsPivot.lean` .. `PIPCoreProofsPivot9.lean`);
this file restates the results that are meant to be re-exported.  Concrete instances (`Piv.exNd`, a
2 x 2 node with one parameter and denominator 4) are in `PIPCoreProofsPivot9.lean` and at the end here.
-/
namespace PPLV.PIPCore

/-- `Tableau::scale` by a non-zero ratio does not change the solutions -/
theorem scale_tabsat {nd : SolNode} (h : WF nd) {r : Int} (hr : r ≠ 0) (v : Nat → Int)
    (q : List Int) : TabSat { nd with tab := nd.tab.scale r } v q ↔ TabSat nd v q :=
  Piv.scale_tabsat h hr v q

theorem scale_wf {nd : SolNode} (h : WF nd) {r : Int} (hr : 0 < r) :
    WF { nd with tab := nd.tab.scale r } := Piv.scale_wf h hr

/-- `Tableau::normalize` does not change the solutions -/
theorem normalize_tabsat {nd : SolNode} (h : WF nd) (v : Nat → Int) (q : List Int) :
    TabSat { nd with tab := nd.tab.normalize } v q ↔ TabSat nd v q := Piv.normalize_tabsat h v q

theorem normalize_wf {nd : SolNode} (h : WF nd) : WF { nd with tab := nd.tab.normalize } :=
  Piv.normalize_wf h

/-- `normalize` keeps the sign of every entry -/
theorem normalize_sign {nd : SolNode} (h : WF nd) (i j : Nat) :
    0 < mget nd.tab.normalize.s i j ↔ 0 < mget nd.tab.s i j := Piv.normalize_sign h i j

/-- `normalize` keeps the shape -/
theorem normalize_shape (T : Tableau) :
    T.normalize.s.length = T.s.length ∧ T.normalize.t.length = T.t.length
      ∧ T.normalize.ns = T.ns ∧ T.normalize.nt = T.nt := Piv.normalize_shape T

/-- the entry formulas of `PivotSpec` preserve the solutions (pure algebra) -/
theorem pivotSpec_tabsat {nd0 nd' : SolNode} {pi pj : Nat} {f : Int} (h : WF nd0)
    (hpi : pi < nd0.tab.s.length) (hpj : pj < nd0.tab.ns) (hspp : mget nd0.tab.s pi pj ≠ 0)
    (hs : PivotSpec nd0 nd' pi pj f) {q : List Int} (hq : q.length = nd0.tab.nt) :
    ∀ v, TabSat nd0 v q ↔ TabSat nd' v q := Piv.pivotSpec_tabsat h hpi hpj hspp hs hq

/-- the three passes of `pivot`, with the global `scale` in the middle of the loops, compute the
    entries of `PivotSpec` (all divisions exact) -/
theorem pivot_spec {nd : SolNode} (h : WF nd) {pi pj : Nat} (hpi : pi < nd.tab.s.length)
    (hpj : pj < nd.tab.ns) (hspp : 0 < mget nd.tab.normalize.s pi pj) :
    ∃ f, PivotSpec { nd with tab := nd.tab.normalize } (pivot nd pi pj) pi pj f :=
  Piv.pivot_spec h hpi hpj hspp

/-- **the pivot of `PIP_Solution_Node::solve` does not change the solutions of the tableau** -/
theorem pivot_preserves {nd : SolNode} (h : WF nd) {pi pj : Nat} (hpi : pi < nd.tab.s.length)
    (hpj : pj < nd.tab.ns) (hspp : 0 < mget nd.tab.normalize.s pi pj) {q : List Int}
    (hq : q.length = nd.tab.nt) : ∀ v, (TabSat nd v q ↔ TabSat (pivot nd pi pj) v q) :=
  Piv.pivot_preserves h hpi hpj hspp hq

/-- the same with the pivot coefficient read before `normalize` -/
theorem pivot_preserves' {nd : SolNode} (h : WF nd) {pi pj : Nat} (hpi : pi < nd.tab.s.length)
    (hpj : pj < nd.tab.ns) (hspp : 0 < mget nd.tab.s pi pj) {q : List Int}
    (hq : q.length = nd.tab.nt) : ∀ v, (TabSat nd v q ↔ TabSat (pivot nd pi pj) v q) :=
  Piv.pivot_preserves' h hpi hpj hspp hq

/-- **the pivot keeps the node well-formed** -/
theorem pivot_wf {nd : SolNode} (h : WF nd) {pi pj : Nat} (hpi : pi < nd.tab.s.length)
    (hpj : pj < nd.tab.ns) (hspp : 0 < mget nd.tab.normalize.s pi pj) : WF (pivot nd pi pj) :=
  Piv.pivot_wf h hpi hpj hspp

theorem pivot_wf' {nd : SolNode} (h : WF nd) {pi pj : Nat} (hpi : pi < nd.tab.s.length)
    (hpj : pj < nd.tab.ns) (hspp : 0 < mget nd.tab.s pi pj) : WF (pivot nd pi pj) :=
  Piv.pivot_wf' h hpi hpj hspp

/-- the pivot preserves the feasible valuations too (the set of variables is the same) -/
theorem pivot_feasible {nd : SolNode} (h : WF nd) {pi pj : Nat} (hpi : pi < nd.tab.s.length)
    (hpj : pj < nd.tab.ns) (hspp : 0 < mget nd.tab.normalize.s pi pj) {q : List Int}
    (hq : q.length = nd.tab.nt) : ∀ v, (Feasible nd v q ↔ Feasible (pivot nd pi pj) v q) := by
  intro v
  unfold Feasible
  rw [← pivot_preserves h hpi hpj hspp hq v]
  have : (pivot nd pi pj).mapping.length = nd.mapping.length := by
    rw [Piv.pivot_eq]
    show ((nd.mapping.set _ _).set _ _).length = _
    rw [List.length_set, List.length_set]
  rw [this]

/-! ### non-vacuity -/

example : WF Piv.exNd ∧ 0 < Piv.exNd.tab.s.length ∧ 0 < Piv.exNd.tab.ns
    ∧ 0 < mget Piv.exNd.tab.normalize.s 0 0 ∧ [1, 2].length = Piv.exNd.tab.nt :=
  ⟨Piv.exNd_wf, by decide, by decide, by decide, by decide⟩

example : ∀ v, Feasible Piv.exNd v [1, 2] ↔ Feasible (pivot Piv.exNd 0 0) v [1, 2] :=
  pivot_feasible Piv.exNd_wf (by decide) (by decide) (by decide) (by decide)

/-- `Feasible` is inhabited on the instance (`Piv.exVal = (1, 1, 0, 4)`, `p = 2`) -/
example : Feasible (pivot Piv.exNd 0 0) Piv.exVal [1, 2] := by
  refine (pivot_feasible Piv.exNd_wf (by decide) (by decide) (by decide) (by decide) Piv.exVal).mp
    ⟨Piv.exVal_sat, ?_⟩
  decide

end PPLV.PIPCore
