import PPLV.Solver.PendingProofsE2E2

/-!
# C06 stage 3 — `compute_generator` returns the projection of the basic solution

`computeGeneratorPt_spec`: for a feasible basis (`CanonTB`) and a mapping whose columns lie before the sign
column, the point built by `compute_generator` (:1803) has a positive divisor and, as a rational point, is
`proj mapping (basic solution)` on the problem variables.
-/
namespace PPLV.Solver.Pend
open PPLV.Lin PPLV.Solver PPLV.Solver.Tab

theorem isInBase_spec (base : List Nat) (v : Nat) :
    (∀ r, isInBase base v = some r → r < base.length ∧ base.getD r 0 = v) ∧
    (isInBase base v = none → ∀ i, i < base.length → base.getD i 0 ≠ v) := by
  unfold isInBase
  have key := revFold_inv
    (fun (k : Nat) (acc : Option Nat) =>
      (∀ r, acc = some r → r < base.length ∧ base.getD r 0 = v) ∧
      (acc = none → ∀ i, k ≤ i → i < base.length → base.getD i 0 ≠ v))
    (fun i acc => match acc with
      | some r => some r
      | none => if base.getD i 0 == v then some i else none)
    base.length none
    ⟨(fun r h => by cases h), fun _ i h1 h2 => by omega⟩
    (by
      intro k hk acc ⟨a1, a2⟩
      cases acc with
      | some r => exact ⟨(fun r' h => a1 r' h), fun h => by cases h⟩
      | none =>
        simp only
        by_cases hb : base.getD k 0 = v
        · have : (base.getD k 0 == v) = true := by rw [hb]; simp
          rw [this]
          simp only [if_true]
          exact ⟨(fun r h => by simp only [Option.some.injEq] at h; subst h; exact ⟨hk, hb⟩), fun h => by cases h⟩
        · have : (base.getD k 0 == v) = false := by simpa using hb
          rw [this]
          simp only [Bool.false_eq_true, if_false]
          refine ⟨(fun r h => by cases h), fun _ i h1 h2 => ?_⟩
          by_cases hik : i = k
          · rw [hik]; exact hb
          · exact a2 rfl i (by omega) h2)
  exact ⟨key.1, fun h i hi => key.2 h i (Nat.zero_le _) hi⟩

/-- the basic solution of a feasible basis -/
def bsol (T : List Row) (base : List Nat) : Val := fun j =>
  if j = 0 then 1 else
    match rowOf base j with
    | some i => -(((T.getD i []).get 0 : Int) : Rat) / (((T.getD i []).get j : Int) : Rat)
    | none => 0

/-- value of a tableau column as computed by `compute_generator` (:1829–:1845) -/
theorem varValue_spec {T : List Row} {base : List Nat} {n : Nat} (hC : CanonTB T base n) (col : Nat) (hc : col ≠ 0) :
    0 < (varValue T base col).2 ∧
    ((varValue T base col).1 : Rat) / ((varValue T base col).2 : Rat) = bsol T base col := by
  unfold varValue bsol
  rw [if_neg hc]
  obtain ⟨s1, s2⟩ := isInBase_spec base col
  cases hi : isInBase base col with
  | none =>
    have hno := s2 hi
    have : rowOf base col = none := by
      cases hr : rowOf base col with
      | none => rfl
      | some i => exact absurd (rowOf_some hr).2 (hno i (rowOf_some hr).1)
    rw [this]; simp
  | some r =>
    obtain ⟨hr, hb⟩ := s1 r hi
    have hrT : r < T.length := by rw [← hC.lenB]; exact hr
    have hro : rowOf base col = some r := by
      cases hr' : rowOf base col with
      | none => exact absurd hb (rowOf_none hr' r hr)
      | some k =>
        obtain ⟨hk, hkb⟩ := rowOf_some hr'
        have hkT : k < T.length := by rw [← hC.lenB]; exact hk
        by_cases hkr : k = r
        · rw [hkr]
        · exfalso
          have := hC.basicCol k r hkT hrT hkr
          rw [hkb, ← hb] at this
          exact hC.basicNZ r hrT this
    rw [hro]
    simp only
    have hnz : (T.getD r []).get col ≠ 0 := by rw [← hb]; exact hC.basicNZ r hrT
    exact basicValue_spec _ _ hnz

/-- numerator / denominator of a problem variable (:1823–:1881) -/
theorem genCoord_spec {T : List Row} {base : List Nat} {n : Nat} (hC : CanonTB T base n) (M : List (Nat × Nat)) (i : Nat)
    (h1 : (M.getD (i+1) (0, 0)).1 ≠ 0) :
    0 < (genCoord T base M i).2 ∧
    ((genCoord T base M i).1 : Rat) / ((genCoord T base M i).2 : Rat) = proj M (bsol T base) i := by
  unfold genCoord proj
  simp only
  obtain ⟨v1, v2⟩ := varValue_spec hC _ h1
  by_cases hm : (M.getD (i+1) (0, 0)).2 = 0
  · have : ((M.getD (i+1) (0, 0)).2 != 0) = false := by rw [hm]; rfl
    rw [this]
    simp only [Bool.false_eq_true, if_false, sub_zero]
    exact ⟨v1, v2⟩
  · have : ((M.getD (i+1) (0, 0)).2 != 0) = true := bne_iff_ne.mpr hm
    rw [this]
    simp only [if_true]
    obtain ⟨s1, s2⟩ := isInBase_spec base (M.getD (i+1) (0, 0)).2
    cases hi : isInBase base (M.getD (i+1) (0, 0)).2 with
    | none =>
      simp only
      have hno := s2 hi
      have hz : bsol T base (M.getD (i+1) (0, 0)).2 = 0 := by
        unfold bsol; rw [if_neg hm]
        cases hr : rowOf base (M.getD (i+1) (0, 0)).2 with
        | none => rfl
        | some k => exact absurd (rowOf_some hr).2 (hno k (rowOf_some hr).1)
      rw [hz, sub_zero]; exact ⟨v1, v2⟩
    | some r =>
      simp only
      obtain ⟨w1, w2⟩ := varValue_spec hC (M.getD (i+1) (0, 0)).2 hm
      have hw : varValue T base (M.getD (i+1) (0, 0)).2 = basicValue (T.getD r []) (M.getD (i+1) (0, 0)).2 := by
        unfold varValue; rw [hi]
      rw [hw] at w1 w2
      obtain ⟨m1, m2⟩ := mergeSplit_spec (varValue T base (M.getD (i+1) (0, 0)).1).1
        (varValue T base (M.getD (i+1) (0, 0)).1).2
        (basicValue (T.getD r []) (M.getD (i+1) (0, 0)).2).1 (basicValue (T.getD r []) (M.getD (i+1) (0, 0)).2).2 v1 w1
      exact ⟨m1, by rw [m2, v2, w2]⟩

/-! ### the common denominator -/

theorem foldl_lcm_spec (l : List (Int × Int)) (a : Int) (ha : 0 < a) (hl : ∀ p ∈ l, 0 < p.2) :
    0 < l.foldl (fun (L : Int) p => ((Int.lcm L p.2 : Nat) : Int)) a ∧
    a ∣ l.foldl (fun (L : Int) p => ((Int.lcm L p.2 : Nat) : Int)) a ∧
    ∀ p ∈ l, p.2 ∣ l.foldl (fun (L : Int) p => ((Int.lcm L p.2 : Nat) : Int)) a := by
  induction l generalizing a with
  | nil => exact ⟨ha, dvd_refl _, fun p hp => by cases hp⟩
  | cons q l ih =>
    simp only [List.foldl_cons]
    have hq := hl q List.mem_cons_self
    have hpos : (0 : Int) < ((Int.lcm a q.2 : Nat) : Int) := by
      exact_mod_cast Int.lcm_pos (by omega) (by omega)
    obtain ⟨i1, i2, i3⟩ := ih _ hpos (fun p hp => hl p (List.mem_cons_of_mem _ hp))
    refine ⟨i1, dvd_trans (Int.dvd_lcm_left a q.2) i2, fun p hp => ?_⟩
    rcases List.mem_cons.mp hp with rfl | hp
    · exact dvd_trans (Int.dvd_lcm_right a p.2) i2
    · exact i3 p hp

/-- `point(expr, lcm)`: dividing by the gcd does not change the rational point; the divisor stays positive -/
theorem mkPoint_spec (nums : List Int) (d : Int) (hd : 0 < d) :
    0 < (mkPoint nums d).den ∧ ∀ i, (mkPoint nums d).val i = ((nums.getD i 0 : Int) : Rat) / (d : Rat) := by
  unfold mkPoint
  obtain ⟨g, hg, e1, -, e3⟩ := normalizeRow_spec (d :: nums)
  cases hn : normalizeRow (d :: nums) with
  | nil => rw [hn] at e3; simp at e3
  | cons d' nums' =>
    simp only
    rw [hn] at e1
    have h0 := e1 0
    simp only [Row.get, List.getD_cons_zero] at h0
    have hd' : 0 < d' := by
      by_contra hneg
      have : d' ≤ 0 := by omega
      have := mul_nonpos_of_nonneg_of_nonpos (le_of_lt hg) this
      omega
    refine ⟨hd', fun i => ?_⟩
    have hi := e1 (i + 1)
    simp only [Row.get, List.getD_cons_succ] at hi
    unfold Pt.val
    simp only
    have hgq : (g : Rat) ≠ 0 := by exact_mod_cast (ne_of_gt hg)
    have hd'q : (d' : Rat) ≠ 0 := by exact_mod_cast (ne_of_gt hd')
    have hdq : (d : Rat) ≠ 0 := by exact_mod_cast (ne_of_gt hd)
    have h0q : (g : Rat) * d' = d := by exact_mod_cast h0
    have hiq : (g : Rat) * ((nums'.getD i 0 : Int) : Rat) = ((nums.getD i 0 : Int) : Rat) := by exact_mod_cast hi
    rw [← h0q, ← hiq]
    field_simp

/-- **`compute_generator`** -/
theorem computeGeneratorPt_spec {T : List Row} {base : List Nat} {n : Nat} (hC : CanonTB T base n)
    (M : List (Nat × Nat)) (ext : Nat) (hext : 0 < ext) (hM : ∀ i, i < ext → (M.getD (i+1) (0, 0)).1 ≠ 0) :
    0 < (computeGeneratorPt ext T base M).den ∧
    (computeGeneratorPt ext T base M).num.length = ext ∧
    ∀ i, i < ext → (computeGeneratorPt ext T base M).val i = proj M (bsol T base) i := by
  unfold computeGeneratorPt
  have hne : (ext == 0) = false := by simp; omega
  rw [hne]
  simp only [Bool.false_eq_true, if_false]
  set nd := (List.range ext).map (genCoord T base M) with hnd
  have hlen : nd.length = ext := by simp [hnd]
  have hget : ∀ i, i < ext → nd.getD i (0, 1) = genCoord T base M i := by
    intro i hi
    rw [hnd, List.getD_eq_getElem?_getD, List.getElem?_map, List.getElem?_range hi]; rfl
  have hpos : ∀ p ∈ nd, 0 < p.2 := by
    intro p hp
    rw [hnd] at hp
    obtain ⟨i, hi, rfl⟩ := List.mem_map.mp hp
    exact (genCoord_spec hC M i (hM i (List.mem_range.mp hi))).1
  -- nd = head :: tail
  cases hcs : nd with
  | nil => rw [hcs] at hlen; simp at hlen; omega
  | cons hd tl =>
    simp only [List.headD_cons, List.tail_cons]
    have hhd : 0 < hd.2 := hpos hd (by rw [hcs]; exact List.mem_cons_self)
    obtain ⟨l1, l2, l3⟩ := foldl_lcm_spec tl hd.2 hhd (fun p hp => hpos p (by rw [hcs]; exact List.mem_cons_of_mem _ hp))
    set L := tl.foldl (fun (l : Int) p => ((Int.lcm l p.2 : Nat) : Int)) hd.2 with hL
    obtain ⟨m1, m2⟩ := mkPoint_spec ((hd :: tl).map fun p => p.1 * (L / p.2)) L l1
    refine ⟨m1, ?_, fun i hi => ?_⟩
    · -- the number of coordinates
      unfold mkPoint
      obtain ⟨g, hg, -, -, e3⟩ := normalizeRow_spec (L :: (hd :: tl).map fun p => p.1 * (L / p.2))
      cases hn : normalizeRow (L :: (hd :: tl).map fun p => p.1 * (L / p.2)) with
      | nil => rw [hn] at e3; simp at e3
      | cons d' nums' =>
        simp only
        rw [hn] at e3
        simp only [List.length_cons, List.length_map] at e3
        have : ext = tl.length + 1 := by rw [← hlen, hcs]; rfl
        omega
    · rw [m2 i]
      obtain ⟨g1, g2⟩ := genCoord_spec hC M i (hM i hi)
      rw [← g2, ← hget i hi, hcs]
      have hmem : (hd :: tl).getD i (0, 1) ∈ hd :: tl := by
        rw [List.getD_eq_getElem?_getD, List.getElem?_eq_getElem (by rw [← hcs, hlen]; exact hi)]
        exact List.getElem_mem _
      set p := (hd :: tl).getD i (0, 1) with hp
      have hp2 : 0 < p.2 := hpos p (by rw [hcs]; exact hmem)
      have hdvd : p.2 ∣ L := by
        rcases List.mem_cons.mp hmem with h | h
        · rw [h]; exact l2
        · exact l3 p h
      have hentry : ((hd :: tl).map fun p => p.1 * (L / p.2)).getD i 0 = p.1 * (L / p.2) := by
        rw [List.getD_eq_getElem?_getD, List.getElem?_map, hp, List.getD_eq_getElem?_getD]
        rw [List.getElem?_eq_getElem (by rw [← hcs, hlen]; exact hi)]
        rfl
      rw [hentry]
      obtain ⟨q, hq⟩ := hdvd
      have hq' : L / p.2 = q := by rw [hq]; exact Int.mul_ediv_cancel_left _ (by omega)
      rw [hq']
      have hLq : (L : Rat) = (p.2 : Rat) * (q : Rat) := by exact_mod_cast hq
      have hp2q : (p.2 : Rat) ≠ 0 := by exact_mod_cast (ne_of_gt hp2)
      have hqq : (q : Rat) ≠ 0 := by
        intro h0
        rw [h0, mul_zero] at hLq
        have : (L : Rat) ≠ 0 := by exact_mod_cast (ne_of_gt l1)
        exact this hLq
      rw [hLq]; push_cast; field_simp

end PPLV.Solver.Pend
