import PPLV.Lin.Parse

/-!
# C07 — parametric integer programming: solution trees and the reference lexicographic minimum
(executable model, no Mathlib)

* **Problems.**  `Problem` is the *final data* of a `PIP_Problem`: `nv` variables, `np` parameters
  and rows `xs·x + ps·θ + k ⋈ 0` with `⋈ ∈ {=, ≥, >}`; variables and parameters range over the
  non-negative integers (class documentation of `PIP_Problem`).  Rows without variables are the
  *context*.
* **Trees.**  `Tree` is what the public node interface of `PIP_Tree_Node` exposes: a solution
  node (artificial parameters, constraints on the parameters, one parametric value per variable),
  a decision node (artificial parameters, constraints, true child, false child) or bottom (the null
  pointer; a decision node without false child has `bottom` there).  All expressions are affine over
  the *parameter vector*: the problem parameters in increasing order of their dimension followed
  by the artificial parameters declared on the path from the root, in declaration order.
  An artificial parameter is the floor division of an affine expression over the earlier parameters
  by its denominator.
* **`Tree.eval`** is the "spanning" of the class documentation: compute the artificial parameters of
  the node in declaration order and append them to the parameter vector; if all constraints of the
  node hold go on (decision node: true child; solution node: the parametric values), else take the
  false child (solution node: bottom).  An expression that mentions a parameter not yet declared
  makes the result `scopeError`; a parametric value that is not an integer makes it `nonIntegral`.
* **`lexminRef`** is the reference: the variables are fixed one after the other, in order, to
  0, 1, 2, … ; the rational relaxation of what remains is projected on the next variable with the
  Fourier–Motzkin step of the verified kernel K1 (`elimAt`), so that "no point with this prefix" is *established*, never assumed.  The answer is
  `unknown` when a coordinate is unbounded in the relaxation and the window `W` is exhausted.

Theorems: `PPLV/Solver/PIPProofs.lean`; property statements: `PPLV/Props/C07.lean`.
-/
namespace PPLV.PIP
open PPLV.Lin

/-! ### integer rows -/

inductive Rel | eq | ge | gt
deriving Repr, DecidableEq, Inhabited

def Rel.holds : Rel → Int → Bool
  | .eq, v => v == 0
  | .ge, v => decide (0 ≤ v)
  | .gt, v => decide (0 < v)

/-- `Σ aᵢ xᵢ`; the shorter list decides (missing entries count as zero) -/
def dotI : List Int → List Int → Int
  | a :: as, x :: xs => a * x + dotI as xs
  | _, _ => 0

/-- a constraint of a problem: `xs·x + ps·θ + k ⋈ 0` -/
structure PRow where
  xs : List Int
  ps : List Int
  k : Int
  rel : Rel
deriving Repr, DecidableEq, Inhabited

def PRow.holds (r : PRow) (x θ : List Int) : Bool := r.rel.holds (dotI r.xs x + dotI r.ps θ + r.k)

structure Problem where
  nv : Nat
  np : Nat
  rows : List PRow
deriving Repr, Inhabited

/-- `x` is a point of the feasible region of `P` for the parameter values `θ` -/
def Problem.feasible (P : Problem) (θ x : List Int) : Prop :=
  x.length = P.nv ∧ (∀ v ∈ x, 0 ≤ v) ∧ ∀ r ∈ P.rows, r.holds x θ = true

def Problem.feasibleB (P : Problem) (θ x : List Int) : Bool :=
  decide (x.length = P.nv) && x.all (fun v => decide (0 ≤ v)) && P.rows.all (fun r => r.holds x θ)

/-- the context: rows that mention no variable -/
def PRow.isContext (r : PRow) : Bool := r.xs.all (· == 0)
def Problem.inContext (P : Problem) (θ : List Int) : Bool :=
  θ.all (fun v => decide (0 ≤ v)) && P.rows.all fun r => !r.isContext || r.holds [] θ

/-- lexicographic order on integer vectors (of the same length) -/
def lexLe : List Int → List Int → Prop
  | a :: as, b :: bs => a < b ∨ (a = b ∧ lexLe as bs)
  | _, _ => True

/-! ### solution trees -/

/-- affine expression over the parameter vector -/
structure Aff where
  cs : List Int
  k : Int
deriving Repr, DecidableEq, Inhabited

/-- all parameters mentioned have an index `< n` -/
def Aff.scoped (a : Aff) (n : Nat) : Bool := (a.cs.drop n).all (· == 0)

/-- value under the parameter vector `env`; `none`: an undeclared parameter is mentioned -/
def Aff.eval (a : Aff) (env : List Int) : Option Int :=
  if a.scoped env.length then some (dotI a.cs env + a.k) else none

/-- `num / den`: an artificial parameter (floor of the quotient) or a parametric value (exact) -/
structure QAff where
  num : Aff
  den : Int
deriving Repr, DecidableEq, Inhabited

structure PCon where
  e : Aff
  rel : Rel
deriving Repr, DecidableEq, Inhabited

inductive Tree
  | bottom
  | sol (arts : List QAff) (cons : List PCon) (vals : List QAff)
  | dec (arts : List QAff) (cons : List PCon) (t f : Tree)
deriving Repr, Inhabited

inductive Result
  | bottom
  | point (p : List Int)
  | scopeError
  | nonIntegral
deriving Repr, DecidableEq, Inhabited

/-- the artificial parameters of a node, in declaration order, appended to the parameter vector -/
def evalArts : List QAff → List Int → Option (List Int)
  | [], env => some env
  | a :: as, env =>
    match a.num.eval env with
    | none => none
    | some v => evalArts as (env ++ [Int.fdiv v a.den])

/-- do all constraints hold? (`none`: scope error) -/
def evalCons : List PCon → List Int → Option Bool
  | [], _ => some true
  | c :: cs, env =>
    match c.e.eval env with
    | none => none
    | some v =>
      match evalCons cs env with
      | none => none
      | some b => some (c.rel.holds v && b)

def evalVals : List QAff → List Int → Result
  | [], _ => .point []
  | q :: qs, env =>
    match q.num.eval env with
    | none => .scopeError
    | some v =>
      if v % q.den != 0 then
        (match evalVals qs env with
         | .scopeError => .scopeError
         | _ => .nonIntegral)
      else
        match evalVals qs env with
        | .point p => .point (v / q.den :: p)
        | r => r

def Tree.eval : Tree → List Int → Result
  | .bottom, _ => .bottom
  | .sol arts cons vals, env =>
    match evalArts arts env with
    | none => .scopeError
    | some env' =>
      match evalCons cons env' with
      | none => .scopeError
      | some false => .bottom
      | some true => evalVals vals env'
  | .dec arts cons t f, env =>
    match evalArts arts env with
    | none => .scopeError
    | some env' =>
      match evalCons cons env' with
      | none => .scopeError
      | some true => t.eval env'
      | some false => f.eval env'

/-! ### scoping -/

def artsScoped : List QAff → Nat → Bool
  | [], _ => true
  | a :: as, n => a.num.scoped n && artsScoped as (n + 1)

/-- every expression of the tree mentions only problem parameters (`n` of them at the root) and
    artificial parameters declared above it (or earlier in the same node) -/
def Tree.wellScoped : Tree → Nat → Bool
  | .bottom, _ => true
  | .sol arts cons vals, n =>
    artsScoped arts n && cons.all (fun c => c.e.scoped (n + arts.length))
      && vals.all (fun q => q.num.scoped (n + arts.length))
  | .dec arts cons t f, n =>
    artsScoped arts n && cons.all (fun c => c.e.scoped (n + arts.length))
      && t.wellScoped (n + arts.length) && f.wellScoped (n + arts.length)

/-- denominators are positive; a decision node has at least one constraint, and a false child only
    when it has exactly one (class documentation) -/
def Tree.wellFormed : Tree → Bool
  | .bottom => true
  | .sol arts _ vals => arts.all (fun a => decide (0 < a.den)) && vals.all (fun a => decide (0 < a.den))
  | .dec arts cons t f =>
    arts.all (fun a => decide (0 < a.den)) && !cons.isEmpty
      && (cons.length ≤ 1 || (match f with | .bottom => true | _ => false))
      && t.wellFormed && f.wellFormed

def Tree.size : Tree → Nat
  | .bottom => 1
  | .sol .. => 1
  | .dec _ _ t f => 1 + t.size + f.size

def Tree.numArts : Tree → Nat
  | .bottom => 0
  | .sol arts _ _ => arts.length
  | .dec arts _ t f => arts.length + t.numArts + f.numArts

/-! ### the reference lexicographic minimum -/

/-- a row over the variables that are still free: `cs·x + k ⋈ 0` -/
structure Row where
  cs : List Int
  k : Int
  rel : Rel
deriving Repr, DecidableEq, Inhabited

def Row.holds (r : Row) (x : List Int) : Bool := r.rel.holds (dotI r.cs x + r.k)

/-- fix the first free variable to `v` -/
def Row.subst (r : Row) (v : Int) : Row := ⟨r.cs.tail, r.k + r.cs.headD 0 * v, r.rel⟩

/-- the parameters replaced by their values -/
def PRow.inst (r : PRow) (θ : List Int) : Row := ⟨r.xs, r.k + dotI r.ps θ, r.rel⟩

/-- the rational relaxation of a row, as K1 rows -/
def Row.toCons (r : Row) : List Con :=
  match r.rel with
  | .eq => eqRows r.cs r.k
  | .ge => [geRow r.cs r.k]
  | .gt => [gtRow r.cs r.k]

def nonneg (n : Nat) : List Con := (List.range n).map fun i => geRow (unitRow i 1) 0

def relaxation (n : Nat) (rows : List Row) : List Con := rows.flatMap Row.toCons ++ nonneg n

/-- Fourier–Motzkin elimination of the listed variables with the K1 step `elimAt` (proved:
    `elimAt_correct`) and the cheap tidying `tidy0` (`tidy0_correct`) -/
def elimLight : List Nat → List Con → List Con
  | [], cs => cs
  | i :: is, cs => elimLight is (tidy0 (elimAt i cs))

/-- all coefficients except the one at index `j` are zero -/
def onlyAt : Nat → List Int → Bool
  | _, [] => true
  | 0, _ :: as => as.all (· == 0)
  | j + 1, a :: as => a == 0 && onlyAt j as

inductive Bound
  | empty                              -- no admissible value
  | range (lo : Int) (hi : Option Int) -- admissible values lie in [lo, hi]
deriving Repr, DecidableEq, Inhabited

def Bound.contains : Bound → Int → Prop
  | .empty, _ => False
  | .range lo none, v => lo ≤ v
  | .range lo (some hi), v => lo ≤ v ∧ v ≤ hi

def Bound.capHi : Bound → Int → Bound
  | .empty, _ => .empty
  | .range lo none, h => .range lo (some h)
  | .range lo (some hi), h => .range lo (some (if h < hi then h else hi))

def Bound.capLo : Bound → Int → Bound
  | .empty, _ => .empty
  | .range lo hi, l => .range (if lo < l then l else lo) hi

/-- what a row that mentions only variable `j` says about the integer values of that variable -/
def Bound.meetRow (j : Nat) (b : Bound) (c : Con) : Bound :=
  if !onlyAt j c.coeffs then b else
    let a := c.at j
    if a = 0 then (if c.k < 0 || (c.strict && c.k == 0) then .empty else b)
    else if a < 0 then b.capHi (c.k / (-a))
    else b.capLo (-(c.k / a))

/-- range of the integer values of the free variable `j`: shadow of the rational relaxation -/
def boundAt (n j : Nat) (rows : List Row) : Bound :=
  (elimLight ((List.range n).filter (· != j)) (tidy0 (relaxation n rows))).foldl (Bound.meetRow j)
    (.range 0 none)

/-- range of the first free variable -/
def bound (n : Nat) (rows : List Row) : Bound := boundAt n 0 rows

/-- no integer lies in the range -/
def Bound.intEmpty : Bound → Bool
  | .empty => true
  | .range lo (some hi) => decide (hi < lo)
  | .range _ none => false

/-- some coordinate has no admissible integer value at all: the region has no integer point,
    whatever the order in which the variables are fixed -/
def noIntegerShadow (n : Nat) (rows : List Row) : Bool :=
  (List.range n).any fun j => (boundAt n j rows).intEmpty

inductive Ans
  | bottom                  -- the region has no non-negative integer point
  | point (p : List Int)    -- its lexicographic minimum
  | unknown                 -- window exhausted in an unbounded direction
deriving Repr, DecidableEq, Inhabited

/-- try `v, v+1, …` (`fuel` values); `capped`: the values beyond were not excluded -/
def scan (f : Int → Ans) : Nat → Int → Bool → Ans
  | 0, _, capped => if capped then .unknown else .bottom
  | fuel + 1, v, capped =>
    match f v with
    | .point p => .point (v :: p)
    | .unknown => .unknown
    | .bottom => scan f fuel (v + 1) capped

/-- lexicographic minimum of the non-negative integer solutions of `rows` over `n` variables -/
def search (W : Nat) : Nat → List Row → Ans
  | 0, rows => if rows.all (fun r => r.holds []) then .point [] else .bottom
  | n + 1, rows =>
    match bound (n + 1) rows with
    | .empty => .bottom
    | .range lo hi =>
      let lo := if lo < 0 then 0 else lo
      match hi with
      | some b =>
        if b < lo then .bottom
        else if b - lo ≤ W then
          scan (fun v => search W n (rows.map (·.subst v))) ((b - lo).toNat + 1) lo false
        else scan (fun v => search W n (rows.map (·.subst v))) (W + 1) lo true
      | none => scan (fun v => search W n (rows.map (·.subst v))) (W + 1) lo true

/-- **the reference**: lexicographic minimum of the feasible region of `P` at `θ` (window `W`) -/
def lexminRef (W : Nat) (P : Problem) (θ : List Int) : Ans :=
  let rows := P.rows.map (·.inst θ)
  if noIntegerShadow P.nv rows then .bottom else search W P.nv rows

/-! ### the Gomory cut of `PIP_Solution_Node::generate_cut` (stage 2)

A tableau row with common denominator `d > 0` states `d·x = Σ sⱼ yⱼ + Σ tₖ pₖ + t₀` for a basic
variable `x`, non-basic variables `yⱼ ≥ 0` and parameters `pₖ`.  When `x` must be an integer, the cut
is `Σ (sⱼ mod d) yⱼ + Σ (tₖ mod d) pₖ + (t₀ mod d) - d·q ≥ 0 ` with the new artificial parameter
`q = ⌈(Σ (tₖ mod d) pₖ + (t₀ mod d)) / d⌉`, which the code introduces as
`q' = ⌊(Σ ((-tₖ) mod d) pₖ + ((-t₀) mod d)) / d⌋` together with the two context rows
`0 ≤ e - d·q' ≤ d - 1` for `e = Σ ((-tₖ) mod d) pₖ + ((-t₀) mod d)`.  (`mod` = `pos_rem_assign`: the remainder in `[0, d)`.) -/

/-- `pos_rem_assign` -/
def posRem (a d : Int) : Int := a.emod d

structure CutRow where
  d : Int              -- common denominator (positive)
  s : List Int         -- coefficients of the non-basic variables
  t : List Int         -- coefficients of the parameters
  t0 : Int             -- constant term

/-- numerator of the new artificial parameter: `Σ ((-tₖ) mod d) pₖ + ((-t₀) mod d)` -/
def CutRow.artNum (r : CutRow) : Aff := ⟨r.t.map (fun a => posRem (-a) r.d), posRem (-r.t0) r.d⟩

/-- the cut, as coefficients (variables, parameters, new parameter, constant): the row
    `Σ (sⱼ mod d) yⱼ - Σ ((-tₖ) mod d) pₖ - ((-t₀) mod d) + d·q' ≥ 0` -/
structure Cut where
  s : List Int
  t : List Int
  q : Int
  k : Int

def CutRow.cut (r : CutRow) : Cut :=
  ⟨r.s.map (fun a => posRem a r.d), r.t.map (fun a => - posRem (-a) r.d), r.d, - posRem (-r.t0) r.d⟩

def Cut.holds (c : Cut) (y p : List Int) (q : Int) : Prop := 0 ≤ dotI c.s y + dotI c.t p + c.q * q + c.k

end PPLV.PIP
