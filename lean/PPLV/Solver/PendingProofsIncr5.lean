import PPLV.Solver.PendingProofsIncr4

/-!
# C06 stage 3 — one insertion (with `combineRow`) keeps `GCtx.GInv`
-/
namespace PPLV.Solver.Pend
open PPLV.Lin PPLV.Solver PPLV.Solver.Tab
open InsCtx (filter_length_le_take take_succ_filter getD_set_row')

namespace GCtx
variable (C : GCtx)

theorem SLle (i : Nat) (st : Ins) (h : C.GInv i st) : st.slackIndex ≤ C.SL := by
  rw [h.sl_eq]; unfold SL; have := filter_length_le_take C.pend i slackC; omega

theorem kN (i : Nat) (st : Ins) (h : C.GInv i st) : st.k ≤ C.N := by
  rw [h.k_eq]; unfold N Nn; have := filter_length_le_take C.pend i tabC; omega

/-- every row but the one being written has the full length and vanishes on the free slack region -/
theorem rows_all (i : Nat) (st : Ins) (h : C.GInv i st) (r : Nat) (hr : r < C.N) :
    (st.T.getD r []).length = C.numCols ∧
    ∀ col, ((C.V ≤ col ∧ col < st.slackIndex) ∨ C.SL ≤ col) → (st.T.getD r []).get col = 0 := by
  have hVSL : C.V ≤ C.SL := by unfold SL; omega
  by_cases h1 : r < C.R0
  · rw [h.oldT r h1]
    exact ⟨C.oRowLen r h1, fun col hcol => C.oZero r h1 col (by rcases hcol with ⟨a, _⟩ | a <;> omega)⟩
  · by_cases h2 : r < st.k
    · rw [(h.low r (by omega) h2).2.2]
      exact ⟨zeros_length _, fun col _ => zeros_get _ _⟩
    · exact h.rows r (by omega) hr

/-- **one insertion**: the row `row1` (the constraint, with `−1` at the slack column `sl'` for an inequality) is
combined against the based rows and written at `k − 1`; `wk` says whether the row gets the slack as basic variable -/
theorem ins_common (i : Nat) (hi : i < C.pend.length) (st : Ins) (h : C.GInv (i+1) st)
    (ht : tabC (C.pend.getD i default) = true)
    (row1 : Row) (wk : Bool) (sl' b' : Nat)
    (hb' : (wk = true ∧ b' = sl') ∨ (wk = false ∧ b' = 0))
    (heq : (C.pend.getD i default).isEq = true → sl' = st.slackIndex ∧ wk = false)
    (hne : (C.pend.getD i default).isEq = false → sl' + 1 = st.slackIndex ∧ C.V ≤ sl')
    (r1len : row1.length = C.numCols)
    (r1zero : ∀ col, ((C.V ≤ col ∧ col < sl') ∨ C.SL ≤ col) → row1.get col = 0)
    (r1sl : (C.pend.getD i default).isEq = false → row1.get sl' = -1)
    (hsem : ∀ y : Val, y 0 = 1 → rowVal row1 y =
      dot (C.pend.getD i default).coeffs (proj C.M y) + ((C.pend.getD i default).k : Rat)
        - (if (C.pend.getD i default).isEq = true then 0 else y sl'))
    (hfeas : wk = true → 0 ≤ dot (C.pend.getD i default).coeffs C.xstar + ((C.pend.getD i default).k : Rat))
    (hcnt : (st.worked.set (st.k - 1) wk).count true = C.wcount i) :
    C.GInv i { T := st.T.set (st.k - 1) (combineRow st.T (st.base.set (st.k - 1) b') (st.k - 1) row1),
               base := st.base.set (st.k - 1) b', k := st.k - 1, slackIndex := sl',
               worked := st.worked.set (st.k - 1) wk } := by
  have hdrop : C.pend.drop i = C.pend.getD i default :: C.pend.drop (i+1) := by
    rw [List.getD_eq_getElem?_getD, List.getElem?_eq_getElem hi]
    exact List.drop_eq_getElem_cons hi
  set c := C.pend.getD i default with hc
  have hk := take_succ_filter C.pend i hi tabC
  have hs := take_succ_filter C.pend i hi slackC
  rw [← hc, ht] at hk
  rw [← hc] at hs
  simp only [if_true] at hk
  have hkN := C.kN _ _ h
  have hSLle := C.SLle _ _ h
  have hV1 := C.V1
  have hk1 : C.R0 + 1 ≤ st.k := by rw [h.k_eq, hk]; omega
  have hk_eq : st.k - 1 = C.R0 + ((C.pend.take i).filter tabC).length := by rw [h.k_eq, hk]; omega
  have hsl_eq : sl' = C.V + ((C.pend.take i).filter slackC).length := by
    by_cases he : c.isEq = true
    · have hsl : slackC c = false := by unfold slackC; rw [he]; simp
      rw [hsl] at hs; simp only [Bool.false_eq_true, if_false, Nat.add_zero] at hs
      rw [(heq he).1, h.sl_eq, hs]
    · have he' : c.isEq = false := by simpa using he
      have hsl : slackC c = true := by unfold slackC; rw [ht, he']; rfl
      rw [hsl] at hs; simp only [if_true] at hs
      have := (hne he').1; rw [h.sl_eq, hs] at this; omega
  have hslV : C.V ≤ sl' := by rw [hsl_eq]; omega
  have hsl_le : sl' ≤ st.slackIndex := by
    by_cases he : c.isEq = true
    · rw [(heq he).1]
    · have he' : c.isEq = false := by simpa using he
      have := (hne he').1; omega
  have hwk_lt : wk = true → sl' < st.slackIndex := by
    intro hw
    by_cases he : c.isEq = true
    · rw [(heq he).2] at hw; cases hw
    · have he' : c.isEq = false := by simpa using he
      have := (hne he').1; omega
  have hwk_ne : wk = true → c.isEq = false := by
    intro hw
    by_cases he : c.isEq = true
    · rw [(heq he).2] at hw; cases hw
    · simpa using he
  have hb'0 : b' = 0 ∨ C.V ≤ b' := by
    rcases hb' with ⟨_, e⟩ | ⟨_, e⟩
    · right; rw [e]; exact hslV
    · left; exact e
  set k' := st.k - 1 with hk'
  have hkT : k' < st.T.length := by rw [h.lenT]; omega
  have hkB : k' < st.base.length := by rw [h.lenB]; omega
  have hkW : k' < st.worked.length := by rw [h.lenW]; omega
  have hbk0 : st.base.getD k' 0 = 0 := (h.low k' (by omega) (by omega)).2.1
  have hB : ∀ r, (st.base.set k' b').getD r 0 = if r = k' then b' else st.base.getD r 0 :=
    fun r => getD_set_nat' _ _ _ _ hkB
  have hW : ∀ r, (st.worked.set k' wk).getD r false = if r = k' then wk else st.worked.getD r false := by
    intro r
    rw [getD_set_bool]
    by_cases hr : r = k'
    · rw [if_pos ⟨hr, hkW⟩, if_pos hr]
    · rw [if_neg (fun a => hr a.1), if_neg hr]
  set B' := st.base.set k' b' with hB'
  have hBlen : B'.length = C.N := by rw [hB', List.length_set]; exact h.lenB
  have hra := C.rows_all _ _ h
  obtain ⟨c1, c2, D, Mt, hD, hMt, c3, c4⟩ := combine_spec st.T B' k' row1 C.numCols r1len
    (fun j hj _ _ => (hra j (by rw [hBlen] at hj; exact hj)).1)
    (fun j hj hjk hb => by
      rw [hB, if_neg hjk] at hb ⊢
      exact h.pb.nz j (by rw [h.lenT]; rw [hBlen] at hj; exact hj) hb)
    (fun j j' hj hj' hjk _ hjj hb _ => by
      rw [hB, if_neg hjk] at hb ⊢
      rw [hBlen] at hj hj'
      exact h.pb.col j j' (by rw [h.lenT]; exact hj) (by rw [h.lenT]; exact hj') hjj hb)
  set rowF := combineRow st.T B' k' row1 with hrowF
  have hT : ∀ r, (st.T.set k' rowF).getD r [] = if r = k' then rowF else st.T.getD r [] :=
    fun r => getD_set_row' _ _ _ _ hkT
  have hDq : (D : Rat) ≠ 0 := by exact_mod_cast (ne_of_gt hD)
  have hMq : (Mt : Rat) ≠ 0 := by exact_mod_cast hMt
  -- based rows (≠ k') of the new basis vanish where the old rows and the rows `≥ st.k` do
  have hbased : ∀ y : Val, (∀ r, r < C.R0 → rowVal (C.T0.getD r []) y = 0) →
      (∀ r, st.k ≤ r → r < C.N → rowVal (st.T.getD r []) y = 0) →
      ∀ j, j < B'.length → j ≠ k' → B'.getD j 0 ≠ 0 → rowVal (st.T.getD j []) y = 0 := by
    intro y ho hn j hj hjk hb
    rw [hBlen] at hj
    rw [hB, if_neg hjk] at hb
    by_cases h1 : j < C.R0
    · rw [h.oldT j h1]; exact ho j h1
    · by_cases h2 : j < st.k
      · exact absurd (h.low j (by omega) h2).2.1 hb
      · exact hn j (by omega) hj
  -- entries of the new row on the free region
  have hFzero : ∀ col, ((C.V ≤ col ∧ col < st.slackIndex) ∨ C.SL ≤ col) →
      (D : Int) * rowF.get col = Mt * row1.get col := by
    intro col hcol
    exact c3 col (fun j hj _ _ => (hra j (by rw [hBlen] at hj; exact hj)).2 col hcol)
  refine ⟨hk_eq, hsl_eq, by simp [h.lenT], hBlen, by simp [h.lenW], ?_, ?_, ?_, ?_, ?_, ?_, ?_, ?_, ?_, ?_, hcnt, ?_, ?_⟩
  · intro r hr; simp only; rw [hT, if_neg (by omega)]; exact h.oldT r hr
  · intro r hr; simp only; rw [hB, if_neg (by omega)]; exact h.oldB r hr
  · intro r hr; simp only; rw [hW, if_neg (by omega)]; exact h.oldW r hr
  · intro r h1 h2
    simp only at h2 ⊢
    rw [hW, hB, hT, if_neg (by omega), if_neg (by omega), if_neg (by omega)]
    exact h.low r h1 (by omega)
  · -- rows
    intro r h1 h2
    simp only at h1 ⊢
    rw [hT]
    by_cases hrk : r = k'
    · rw [if_pos hrk]
      refine ⟨c1, fun col hcol => ?_⟩
      have hreg : (C.V ≤ col ∧ col < st.slackIndex) ∨ C.SL ≤ col := by
        rcases hcol with ⟨a, b⟩ | a
        · left; omega
        · right; exact a
      have := hFzero col hreg
      rw [r1zero col hcol, mul_zero] at this
      rcases mul_eq_zero.mp this with hd | hz
      · omega
      · exact hz
    · rw [if_neg hrk]
      obtain ⟨a1, a2⟩ := h.rows r (by omega) h2
      exact ⟨a1, fun col hcol => a2 col (by rcases hcol with ⟨p, q⟩ | p <;> [(left; omega); (right; exact p)])⟩
  · -- w_iff
    intro r h1 h2
    simp only at h1 ⊢
    rw [hW, hB]
    by_cases hrk : r = k'
    · rw [if_pos hrk, if_pos hrk]
      rcases hb' with ⟨e1, e2⟩ | ⟨e1, e2⟩
      · rw [e1, e2]; constructor
        · intro _; omega
        · intro _; rfl
      · rw [e1, e2]; simp
    · rw [if_neg hrk, if_neg hrk]; exact h.w_iff r (by omega) h2
  · -- bRange
    intro r h1 h2 hb
    simp only at h1 hb ⊢
    rw [hB] at hb ⊢
    by_cases hrk : r = k'
    · rw [if_pos hrk] at hb ⊢
      rcases hb' with ⟨e1, e2⟩ | ⟨_, e2⟩
      · rw [e2]; exact ⟨le_refl _, by have := hwk_lt e1; omega⟩
      · exact absurd e2 hb
    · rw [if_neg hrk] at hb ⊢
      have := h.bRange r (by omega) h2 hb
      exact ⟨by omega, this.2⟩
  · -- pb
    constructor
    · show B'.length = (st.T.set k' rowF).length
      rw [hBlen, List.length_set, h.lenT]
    · intro r hr hb
      simp only at hb ⊢
      rw [List.length_set] at hr
      rw [hB] at hb ⊢; rw [hT]
      by_cases hrk : r = k'
      · rw [if_pos hrk] at hb ⊢; rw [if_pos hrk]
        rcases hb' with ⟨e1, e2⟩ | ⟨_, e2⟩
        · rw [e2]
          have := hFzero sl' (Or.inl ⟨hslV, hwk_lt e1⟩)
          rw [r1sl (hwk_ne e1)] at this
          intro hz
          rw [hz] at this
          have : Mt = 0 := by linarith
          exact hMt this
        · exact absurd e2 hb
      · rw [if_neg hrk] at hb ⊢; rw [if_neg hrk]
        exact h.pb.nz r hr hb
    · intro r j hr hj hrj hb
      simp only at hb ⊢
      rw [List.length_set] at hr hj
      rw [hB] at hb ⊢; rw [hT]
      rw [h.lenT] at hr hj
      by_cases hrk : r = k'
      · rw [if_pos hrk] at hb ⊢
        rw [if_neg (by omega)]
        rcases hb' with ⟨e1, e2⟩ | ⟨_, e2⟩
        · rw [e2]
          exact (hra j hj).2 sl' (Or.inl ⟨hslV, hwk_lt e1⟩)
        · exact absurd e2 hb
      · rw [if_neg hrk] at hb ⊢
        by_cases hjk : j = k'
        · rw [if_pos hjk]
          have := c2 r (by rw [hBlen]; exact hr) hrk (by rw [hB, if_neg hrk]; exact hb)
          rwa [hB, if_neg hrk] at this
        · rw [if_neg hjk]
          exact h.pb.col r j (by rw [h.lenT]; exact hr) (by rw [h.lenT]; exact hj) hrj hb
  · -- feasNew
    intro r h1 h2 hb
    simp only at h1 hb ⊢
    rw [hB] at hb ⊢; rw [hT]
    by_cases hrk : r = k'
    swap
    · rw [if_neg hrk] at hb ⊢; rw [if_neg hrk]; exact h.feasNew r (by omega) h2 hb
    rw [if_pos hrk] at hb ⊢; rw [if_pos hrk]
    rcases hb' with ⟨e1, e2⟩ | ⟨_, e2⟩
    swap
    · exact absurd e2 hb
    rw [e2]
    have hce := hwk_ne e1
    have hsl0 : sl' ≠ 0 := by omega
    have hnob : ∀ r, r < st.base.length → st.base.getD r 0 ≠ sl' := by
      intro r hr
      rw [h.lenB] at hr
      by_cases h1 : r < C.R0
      · rw [h.oldB r h1]
        by_cases hb0 : C.base0.getD r 0 = 0
        · rw [hb0]; omega
        · have := (C.oRange r h1 hb0).2; omega
      · by_cases h2 : r < st.k
        · rw [(h.low r (by omega) h2).2.1]; omega
        · by_cases hb0 : st.base.getD r 0 = 0
          · rw [hb0]; omega
          · have := (h.bRange r (by omega) hr hb0).1
            have := hwk_lt e1; omega
    have hFb : ∀ r, r < st.base.length → st.base.getD r 0 ≠ 0 → rowF.get (st.base.getD r 0) = 0 := by
      intro r hr hb
      have hrk : r ≠ k' := fun e => hb (by rw [e]; exact hbk0)
      have := c2 r (by rw [hBlen, ← h.lenB]; exact hr) hrk (by rw [hB, if_neg hrk]; exact hb)
      rwa [hB, if_neg hrk] at this
    have key : ∀ σ : Rat, (D : Rat) * (((rowF.get 0 : Int) : Rat) + ((rowF.get sl' : Int) : Rat) * σ) =
        (Mt : Rat) * (dot c.coeffs C.xstar + (c.k : Rat) - σ) := by
      intro σ
      rw [← rowVal_bsol_update (T := st.T) (base := st.base) rowF sl' σ hsl0 hnob hFb]
      have hy0 : ((bsol st.T st.base).update sl' σ) 0 = 1 := by
        simp only [Val.update]; rw [if_neg (fun a => hsl0 a.symm)]; exact bsol_zero _ _
      rw [c4 _ ?_, hsem _ hy0, if_neg (by rw [hce]; simp)]
      · have hproj : proj C.M ((bsol st.T st.base).update sl' σ) = C.xstar := by
          unfold xstar
          apply proj_congr C.M C.nn C.n C.j C.hM
          intro col hcol
          have := C.hjV
          simp only [Val.update]; rw [if_neg (by omega)]
          by_cases hc0 : col = 0
          · rw [hc0, bsol_zero, bsol_zero]
          · exact h.star col (by omega) (by omega)
        rw [hproj]
        simp only [Val.update, if_true]
      · intro j hj hjk hb
        rw [hBlen] at hj
        rw [hB, if_neg hjk] at hb
        unfold rowVal
        rw [dot_update]
        have hz := (hra j hj).2 sl' (Or.inl ⟨hslV, hwk_lt e1⟩)
        unfold Row.get at hz
        rw [hz]
        have := bsol_based_row h.pb (i := j) (by rw [h.lenT]; exact hj) hb
        unfold rowVal at this
        rw [this]; simp
    have k0 := key 0
    have k1 := key 1
    have hval := hfeas e1
    set val := dot c.coeffs C.xstar + (c.k : Rat) with hvaldef
    set a0 : Rat := ((rowF.get 0 : Int) : Rat) with ha0
    set as : Rat := ((rowF.get sl' : Int) : Rat) with has
    have e_s : (D : Rat) * as = -(Mt : Rat) := by linarith
    have e_0 : (D : Rat) * a0 = (Mt : Rat) * val := by linarith
    have has0 : as ≠ 0 := by
      intro hz; rw [hz, mul_zero] at e_s
      exact hMq (by linarith)
    have : -a0 / as = val := by
      rw [div_eq_iff has0]
      have : (D : Rat) * (-a0) = (D : Rat) * (val * as) := by
        calc (D : Rat) * (-a0) = -((D : Rat) * a0) := by ring
          _ = -((Mt : Rat) * val) := by rw [e_0]
          _ = val * (-(Mt : Rat)) := by ring
          _ = val * ((D : Rat) * as) := by rw [e_s]
          _ = (D : Rat) * (val * as) := by ring
      exact mul_left_cancel₀ hDq this
    rw [this]; exact hval
  · -- star
    intro col h1 h2
    simp only
    rw [bsol_congr_set st.T st.base k' rowF b' C.V hkT (by rw [h.lenB, h.lenT]) hbk0 hb'0 col h1 h2]
    exact h.star col h1 h2
  · -- sound
    intro y h0 hnn hold hrows c' hc' htc'
    simp only at hrows
    have hn : ∀ r, st.k ≤ r → r < C.N → rowVal (st.T.getD r []) y = 0 := by
      intro r hr1 hr2
      have := hrows r (by omega) hr2
      rwa [hT, if_neg (by omega)] at this
    rw [hdrop] at hc'
    rcases List.mem_cons.mp hc' with rfl | hc'
    · have hF := hrows k' (le_refl _) (by omega)
      rw [hT, if_pos rfl] at hF
      have := c4 y (hbased y hold hn)
      rw [hF, mul_zero] at this
      have h1 : rowVal row1 y = 0 := by
        rcases mul_eq_zero.mp this.symm with a | a
        · exact absurd a hMq
        · exact a
      rw [hsem y h0] at h1
      unfold ICon.holds
      by_cases he : c.isEq = true
      · rw [if_pos he] at h1 ⊢; linarith
      · rw [if_neg he] at h1 ⊢
        have := hnn sl' (by omega)
        linarith
    · exact h.sound y h0 hnn hold hn c' hc' htc'
  · -- complete
    intro y0 h0 hnn hold hall
    obtain ⟨y, y1, y2, y3, y4, y5⟩ := h.complete y0 h0 hnn hold
      (fun c' hc' => hall c' (by rw [hdrop]; exact List.mem_cons_of_mem _ hc'))
    have hholds := hall c (by rw [hdrop]; exact List.mem_cons_self) ht
    unfold ICon.holds at hholds
    have hjV := C.hjV
    by_cases he : c.isEq = true
    · rw [if_pos he] at hholds
      have hsle := (heq he).1
      refine ⟨y, y1, y2, y3, fun col a b => y4 col a (by rw [← hsle]; exact b), fun r hr1 hr2 => ?_⟩
      simp only at hr1 ⊢
      rw [hT]
      by_cases hrk : r = k'
      · rw [if_pos hrk]
        have hold' : ∀ r, r < C.R0 → rowVal (C.T0.getD r []) y = 0 := by
          intro r hr; rw [C.old_congr r hr y y0 y1]; exact hold r hr
        have := c4 y (hbased y hold' y5)
        rw [hsem y y2, if_pos he, proj_congr C.M C.nn C.n C.j C.hM y y0 (fun col hcol => y1 col (by omega)),
          hholds] at this
        simp only [sub_zero, mul_zero] at this
        rcases mul_eq_zero.mp this with a | a
        · exact absurd a hDq
        · exact a
      · rw [if_neg hrk]; exact y5 r (by omega) hr2
    · rw [if_neg he] at hholds
      have he' : c.isEq = false := by simpa using he
      have hsl1 := (hne he').1
      set v := dot c.coeffs (proj C.M y0) + (c.k : Rat) with hv
      have hsl0 : sl' ≠ 0 := by omega
      have hagree : ∀ col, col < C.V → (y.update sl' v) col = y0 col := by
        intro col hcol
        simp only [Val.update]; rw [if_neg (by omega)]; exact y1 col hcol
      have hy0 : (y.update sl' v) 0 = 1 := by
        simp only [Val.update]; rw [if_neg (fun a => hsl0 a.symm)]; exact y2
      have hn' : ∀ r, st.k ≤ r → r < C.N → rowVal (st.T.getD r []) (y.update sl' v) = 0 := by
        intro r hr1 hr2
        unfold rowVal
        rw [dot_update]
        have hz := (h.rows r hr1 hr2).2 sl' (Or.inl ⟨hslV, by omega⟩)
        unfold Row.get at hz
        rw [hz]
        have := y5 r hr1 hr2
        unfold rowVal at this
        rw [this]; simp
      refine ⟨y.update sl' v, hagree, hy0, fun col hcol => ?_, fun col a b => ?_, fun r hr1 hr2 => ?_⟩
      · simp only [Val.update]
        by_cases hcs : col = sl'
        · rw [if_pos hcs]; exact hholds
        · rw [if_neg hcs]; exact y3 col hcol
      · simp only at b
        simp only [Val.update]; rw [if_neg (by rcases b with b | b <;> omega)]
        exact y4 col a (by rcases b with b | b <;> [(left; omega); (right; exact b)])
      · simp only at hr1 ⊢
        rw [hT]
        by_cases hrk : r = k'
        · rw [if_pos hrk]
          have hold' : ∀ r, r < C.R0 → rowVal (C.T0.getD r []) (y.update sl' v) = 0 := by
            intro r hr; rw [C.old_congr r hr _ y0 hagree]; exact hold r hr
          have := c4 _ (hbased _ hold' hn')
          rw [hsem _ hy0, if_neg he,
            proj_congr C.M C.nn C.n C.j C.hM _ y0 (fun col hcol => hagree col (by omega))] at this
          have e : (y.update sl' v) sl' = v := by simp [Val.update]
          rw [e, ← hv, sub_self, mul_zero] at this
          rcases mul_eq_zero.mp this with a | a
          · exact absurd a hDq
          · exact a
        · rw [if_neg hrk]; exact hn' r (by omega) hr2

end GCtx

end PPLV.Solver.Pend
