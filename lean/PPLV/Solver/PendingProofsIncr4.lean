import PPLV.Solver.PendingProofsIncr3

/-!
# C06 stage 3 — the invariant of the insertion loop against a non-empty old tableau (`GCtx.GInv`)
-/
namespace PPLV.Solver.Pend
open PPLV.Lin PPLV.Solver PPLV.Solver.Tab

theorem set_eq_self_nat (l : List Nat) (k : Nat) (h : l.getD k 0 = 0) (hk : k < l.length) : l.set k 0 = l := by
  apply List.ext_getElem?
  intro i
  rw [List.getElem?_set]
  by_cases hik : k = i
  · subst hik
    rw [if_pos rfl, if_pos hk]
    rw [List.getD_eq_getElem?_getD, List.getElem?_eq_getElem hk] at h
    rw [List.getElem?_eq_getElem hk]
    simp only [Option.getD_some] at h
    rw [h]
  · rw [if_neg hik]

theorem set_eq_self_bool (l : List Bool) (k : Nat) (h : l.getD k false = false) (hk : k < l.length) :
    l.set k false = l := by
  apply List.ext_getElem?
  intro i
  rw [List.getElem?_set]
  by_cases hik : k = i
  · subst hik
    rw [if_pos rfl, if_pos hk]
    rw [List.getD_eq_getElem?_getD, List.getElem?_eq_getElem hk] at h
    rw [List.getElem?_eq_getElem hk]
    simp only [Option.getD_some] at h
    rw [h]
  · rw [if_neg hik]

theorem zeros_length (n : Nat) : (zeros n).length = n := by simp [zeros]

theorem zeros_get (n col : Nat) : (zeros n).get col = 0 := zeros_getD n col

namespace GCtx
variable (C : GCtx)

/-- the invariant after the pending constraints with index `≥ i` are inserted -/
structure GInv (i : Nat) (st : Ins) : Prop where
  k_eq : st.k = C.R0 + ((C.pend.take i).filter tabC).length
  sl_eq : st.slackIndex = C.V + ((C.pend.take i).filter slackC).length
  lenT : st.T.length = C.N
  lenB : st.base.length = C.N
  lenW : st.worked.length = C.N
  oldT : ∀ r, r < C.R0 → st.T.getD r [] = C.T0.getD r []
  oldB : ∀ r, r < C.R0 → st.base.getD r 0 = C.base0.getD r 0
  oldW : ∀ r, r < C.R0 → st.worked.getD r false = false
  low : ∀ r, C.R0 ≤ r → r < st.k →
    st.worked.getD r false = false ∧ st.base.getD r 0 = 0 ∧ st.T.getD r [] = zeros C.numCols
  rows : ∀ r, st.k ≤ r → r < C.N → (st.T.getD r []).length = C.numCols ∧
    ∀ col, ((C.V ≤ col ∧ col < st.slackIndex) ∨ C.SL ≤ col) → (st.T.getD r []).get col = 0
  w_iff : ∀ r, st.k ≤ r → r < C.N → (st.worked.getD r false = true ↔ st.base.getD r 0 ≠ 0)
  bRange : ∀ r, st.k ≤ r → r < C.N → st.base.getD r 0 ≠ 0 →
    st.slackIndex ≤ st.base.getD r 0 ∧ st.base.getD r 0 < C.SL
  pb : PBased st.T st.base
  feasNew : ∀ r, st.k ≤ r → r < C.N → st.base.getD r 0 ≠ 0 →
    0 ≤ -(((st.T.getD r []).get 0 : Int) : Rat) / (((st.T.getD r []).get (st.base.getD r 0) : Int) : Rat)
  star : ∀ col, 1 ≤ col → col < C.V → bsol st.T st.base col = bsol C.T0 C.base0 col
  cnt : st.worked.count true = C.wcount i
  sound : ∀ y : Val, y 0 = 1 → (∀ col, 1 ≤ col → 0 ≤ y col) →
    (∀ r, r < C.R0 → rowVal (C.T0.getD r []) y = 0) →
    (∀ r, st.k ≤ r → r < C.N → rowVal (st.T.getD r []) y = 0) →
    ∀ c ∈ C.pend.drop i, tabC c = true → c.holds (proj C.M y)
  complete : ∀ y0 : Val, y0 0 = 1 → (∀ col, 1 ≤ col → 0 ≤ y0 col) →
    (∀ r, r < C.R0 → rowVal (C.T0.getD r []) y0 = 0) →
    (∀ c ∈ C.pend.drop i, tabC c = true → c.holds (proj C.M y0)) →
    ∃ y : Val, (∀ col, col < C.V → y col = y0 col) ∧ y 0 = 1 ∧ (∀ col, 1 ≤ col → 0 ≤ y col) ∧
      (∀ col, C.V ≤ col → (col < st.slackIndex ∨ C.SL ≤ col) → y col = y0 col) ∧
      ∀ r, st.k ≤ r → r < C.N → rowVal (st.T.getD r []) y = 0

theorem V1 : 1 ≤ C.V := by have := C.hjV; omega

theorem getD_append_old_row (r : Nat) (hr : r < C.R0) :
    (C.T0 ++ List.replicate C.Nn (zeros C.numCols)).getD r [] = C.T0.getD r [] := by
  rw [List.getD_eq_getElem?_getD, List.getD_eq_getElem?_getD, List.getElem?_append_left hr]

theorem getD_append_new_row (r : Nat) (hr : C.R0 ≤ r) (hr2 : r < C.N) :
    (C.T0 ++ List.replicate C.Nn (zeros C.numCols)).getD r [] = zeros C.numCols := by
  rw [List.getD_eq_getElem?_getD, List.getElem?_append_right hr,
    List.getElem?_replicate_of_lt (by unfold N R0 at *; omega)]
  rfl

theorem getD_append_old_base (r : Nat) (hr : r < C.R0) :
    (C.base0 ++ List.replicate C.Nn 0).getD r 0 = C.base0.getD r 0 := by
  rw [List.getD_eq_getElem?_getD, List.getD_eq_getElem?_getD,
    List.getElem?_append_left (by rw [C.oLenB]; exact hr)]

theorem getD_append_new_base (r : Nat) (hr : C.R0 ≤ r) :
    (C.base0 ++ List.replicate C.Nn 0).getD r 0 = 0 := by
  rw [List.getD_eq_getElem?_getD, List.getElem?_append_right (by rw [C.oLenB]; exact hr)]
  by_cases h : r - C.base0.length < C.Nn
  · rw [List.getElem?_replicate_of_lt h]; rfl
  · rw [List.getElem?_eq_none (by simpa using h)]; rfl

theorem init_pb : PBased C.init.T C.init.base := by
  constructor
  · simp [init, C.oLenB]
  · intro i hi hb
    simp only [init] at hi hb ⊢
    by_cases hio : i < C.R0
    · rw [C.getD_append_old_row i hio]; rw [C.getD_append_old_base i hio] at hb ⊢
      exact C.oNZ i hio hb
    · rw [C.getD_append_new_base i (by omega)] at hb; exact absurd rfl hb
  · intro i j hi hj hij hb
    simp only [init] at hi hj hb ⊢
    have hN : (C.T0 ++ List.replicate C.Nn (zeros C.numCols)).length = C.N := by simp [N, R0]
    rw [hN] at hi hj
    by_cases hio : i < C.R0
    · rw [C.getD_append_old_base i hio] at hb ⊢
      by_cases hjo : j < C.R0
      · rw [C.getD_append_old_row j hjo]; exact C.oCol i j hio hjo hij hb
      · rw [C.getD_append_new_row j (by omega) hj]; exact zeros_get _ _
    · rw [C.getD_append_new_base i (by omega)] at hb; exact absurd rfl hb

theorem init_inv : C.GInv C.pend.length C.init := by
  have htake : C.pend.take C.pend.length = C.pend := List.take_length
  have hdrop : C.pend.drop C.pend.length = [] := List.drop_eq_nil_of_le (le_refl _)
  have hrepF : ∀ r, (List.replicate C.N false).getD r false = false := by
    intro r
    rw [List.getD_eq_getElem?_getD]
    by_cases hr : r < C.N
    · rw [List.getElem?_replicate_of_lt hr]; rfl
    · rw [List.getElem?_eq_none (by simpa using hr)]; rfl
  constructor
  · rw [htake]; rfl
  · rw [htake]; rfl
  · simp [init, N, R0]
  · simp [init, N, R0, C.oLenB]
  · simp [init]
  · intro r hr; exact C.getD_append_old_row r hr
  · intro r hr; exact C.getD_append_old_base r hr
  · intro r _; exact hrepF r
  · intro r h1 h2
    simp only [init] at h2 ⊢
    exact ⟨hrepF r, C.getD_append_new_base r h1, C.getD_append_new_row r h1 h2⟩
  · intro r h1 h2; simp only [init] at h1; omega
  · intro r h1 h2; simp only [init] at h1; omega
  · intro r h1 h2; simp only [init] at h1; omega
  · exact C.init_pb
  · intro r h1 h2; simp only [init] at h1; omega
  · intro col h1 h2
    unfold bsol
    rw [if_neg (by omega), if_neg (by omega)]
    have hro : rowOf (C.base0 ++ List.replicate C.Nn 0) col = rowOf C.base0 col := by
      cases hr : rowOf C.base0 col with
      | some i =>
        obtain ⟨hi, hb⟩ := rowOf_some hr
        unfold rowOf at hr ⊢
        rw [List.find?_eq_some_iff_append] at hr ⊢
        obtain ⟨hp, as, bs, hab, hall⟩ := hr
        have hi' : i < C.R0 := by unfold R0; rw [← C.oLenB]; exact hi
        refine ⟨by rw [C.getD_append_old_base i hi']; exact hp, as, bs ++ (List.range' C.base0.length C.Nn), ?_, ?_⟩
        · rw [List.length_append, List.length_replicate, List.range_add, hab]; simp [List.range'_eq_map_range]
        · intro a ha
          have ham : a ∈ List.range C.base0.length := by rw [hab]; exact List.mem_append_left _ ha
          have hal : a < C.R0 := by unfold R0; rw [← C.oLenB]; exact List.mem_range.mp ham
          rw [C.getD_append_old_base a hal]; exact hall a ha
      | none =>
        have hno := rowOf_none hr
        cases hr2 : rowOf (C.base0 ++ List.replicate C.Nn 0) col with
        | none => rfl
        | some i =>
          exfalso
          obtain ⟨hi, hb⟩ := rowOf_some hr2
          by_cases hio : i < C.R0
          · rw [C.getD_append_old_base i hio] at hb
            exact hno i (by rw [C.oLenB]; exact hio) hb
          · rw [C.getD_append_new_base i (by omega)] at hb; omega
    simp only [init]
    rw [hro]
    cases hr : rowOf C.base0 col with
    | none => rfl
    | some i =>
      simp only
      have hi' : i < C.R0 := by unfold R0; rw [← C.oLenB]; exact (rowOf_some hr).1
      rw [C.getD_append_old_row i hi']
  · simp only [init, wcount]
    rw [List.drop_eq_nil_of_le (by simp)]
    simp [List.count_replicate]
  · intro y _ _ _ _ c hc; rw [hdrop] at hc; cases hc
  · intro y0 h0 hnn _ _
    exact ⟨y0, fun _ _ => rfl, h0, hnn, fun _ _ _ => rfl, fun r h1 h2 => absurd h1 (by simp only [init]; omega)⟩

/-- old rows only see the columns below `V` -/
theorem old_congr (r : Nat) (hr : r < C.R0) (y y0 : Val) (h : ∀ col, col < C.V → y col = y0 col) :
    rowVal (C.T0.getD r []) y = rowVal (C.T0.getD r []) y0 := by
  unfold rowVal
  have key : dot (C.T0.getD r []) (fun col => y col - y0 col) = 0 := by
    apply dot_eq_zero_of_support
    intro col
    by_cases hc : col < C.V
    · right; show y col - y0 col = 0; rw [h col hc]; ring
    · left; exact C.oZero r hr col (by omega)
  have hsub : ∀ (l : List Int) (y y0 : Val), dot l (fun col => y col - y0 col) = dot l y - dot l y0 := by
    intro l
    induction l with
    | nil => intro y y0; rw [dot_nil, dot_nil, dot_nil]; ring
    | cons a l ih =>
      intro y y0
      simp only [dot_cons]
      have := ih y.tail y0.tail
      have e : (Val.tail fun col => y col - y0 col) = fun col => y.tail col - y0.tail col := rfl
      rw [e, this]; ring
  rw [hsub] at key
  linarith

end GCtx

end PPLV.Solver.Pend
